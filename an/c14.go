package an

import (
	"fmt"
	"go/token"
	"go/types"
	"sort"
	"strings"

	"golang.org/x/tools/go/ssa"
)

func init() {
	Registry["C14"] = runC14
}

var libRoles = []string{"lexer", "parser", "transpiler", "bash", "batch"}

// ambient state the emitted text must not depend on
var ambientDeny = []string{"time.", "math/rand.", "math/rand/v2.", "crypto/rand.", "os.Getenv", "os.LookupEnv", "os.Environ", "os.Getpid", "os.Getppid", "os.Hostname", "os.Getuid", "os.Getgid", "os.UserHomeDir", "os.TempDir", "runtime.", "os/user.", "net."}

// path-valued ambient sources: allowed, but only into file access and error text
var pathSources = map[string]bool{"path/filepath.Abs": true, "os.Executable": true, "os.Getwd": true}

func runC14(w *World) *Result {
	r := NewResult("C14")
	r.Explanation = "Decides purity of transpilation structurally: (maporder) every iteration over a map in the library packages has order-insensitive effects (per-key stores / deletes) or feeds error text only; (ambient) no library function calls into time, random, environment, process or host state, and path-valued ambient results (absolute path, executable location, working directory) flow only into file access, the parser's path bookkeeping and error text – never into tree nodes, emitted names or the namespace prefix; (prefix) the namespace prefix is computed from the bytes read from the file through a hash and nothing else; (state) no package-level variable of the library is written after initialisation, the transpiler's converter field is assigned from the call's argument before use, and the parser is created inside the call."
	r.NotDecided = "nothing run-time is needed for this property; the rules rely on the soundness of the static view (no reflection/unsafe in the library, checked) and on C19 for the one in-repo caller handing over fresh converters."
	r.Rule("R-C14-maporder", "map iterations have order-insensitive effects", 1)
	r.Rule("R-C14-ambient", "no ambient state calls; path taint confined to file access, path bookkeeping and error text", 3)
	r.Rule("R-C14-prefix", "namespace prefix = f(file bytes) only", 1)
	r.Rule("R-C14-state", "no writes to package-level state; converter field assigned before use; parser created per call", 4)
	c14MapOrder(w, r)
	c14Ambient(w, r)
	c14State(w, r)
	return r
}

// ---- map iteration --------------------------------------------------------------

func c14MapOrder(w *World, r *Result) {
	rule := "R-C14-maporder"
	n := 0
	for _, role := range append(append([]string{}, libRoles...), "main") {
		for _, fn := range w.Funcs(role) {
			perFn := 0
			for _, b := range fn.Blocks {
				for _, ins := range b.Instrs {
					switch x := ins.(type) {
					case *ssa.Range:
						if _, ok := x.X.Type().Underlying().(*types.Map); !ok {
							continue
						}
						n++
						perFn++
						key := fmt.Sprintf("maporder:%s#%d", FuncName(fn), perFn)
						verdict, why := judgeMapLoop(w, fn, x)
						switch verdict {
						case 0:
							r.Ok(rule, key, w.Pos(x.Pos()), why)
						case 1:
							r.Triv(rule, key, w.Pos(x.Pos()), why)
						default:
							r.Bad(rule, key, w.Pos(x.Pos()), why)
						}
					case *ssa.Call:
						callee := x.Call.StaticCallee()
						if callee == nil {
							continue // (instances of generic functions have no package of their own)
						}
						full := callee.String()
						if strings.HasPrefix(full, "maps.Keys") || strings.HasPrefix(full, "maps.Values") || strings.HasPrefix(full, "maps.All") || strings.HasPrefix(full, "maps.Collect") {
							n++
							perFn++
							key := fmt.Sprintf("maporder:%s#%d", FuncName(fn), perFn)
							if role == "main" && flowsOnlyToErrors(x, map[ssa.Value]bool{}) {
								r.Triv(rule, key, w.Pos(x.Pos()), "iteration order reaches error text only")
							} else {
								r.Bad(rule, key, w.Pos(x.Pos()), "the keys/values of a map are taken in iteration order ("+full+"): whatever is built from the sequence depends on the per-process map seed")
							}
						}
					}
				}
			}
		}
	}
	if n == 0 {
		r.Bad(rule, "maporder:none", "-", "no map iteration found (the import merge and the function filter iterate maps on the reference tree)")
	}
}

// judgeMapLoop: 0 = order-insensitive, 1 = order reaches error text only, 2 = order-sensitive.
func judgeMapLoop(w *World, fn *ssa.Function, rg *ssa.Range) (int, string) {
	// the Next instruction and the loop body
	var next *ssa.Next
	for _, ref := range *rg.Referrers() {
		if nx, ok := ref.(*ssa.Next); ok {
			next = nx
		}
	}
	if next == nil {
		return 2, "map range without a recognisable iteration"
	}
	header := next.Block()
	body := map[*ssa.BasicBlock]bool{}
	for _, b := range fn.Blocks {
		for _, s := range b.Succs {
			if s == header && header.Dominates(b) {
				// back edge b -> header: collect the natural loop
				stack := []*ssa.BasicBlock{b}
				body[header] = true
				for len(stack) > 0 {
					n := stack[len(stack)-1]
					stack = stack[:len(stack)-1]
					if body[n] {
						continue
					}
					body[n] = true
					stack = append(stack, n.Preds...)
				}
			}
		}
	}
	var keyVal ssa.Value
	for _, ref := range *next.Referrers() {
		if ex, ok := ref.(*ssa.Extract); ok && ex.Index == 1 {
			keyVal = ex
		}
	}
	keyed := func(v ssa.Value) bool { return keyVal != nil && dependsOn(v, keyVal, 0) }
	var problems []string
	errOnly := true
	effects := 0
	for b := range body {
		for _, ins := range b.Instrs {
			switch x := ins.(type) {
			case *ssa.MapUpdate:
				effects++
				if !keyed(x.Key) {
					problems = append(problems, "map store under a key that is not the iteration key")
				}
				errOnly = false
			case *ssa.Store:
				if _, ok := x.Addr.(*ssa.Alloc); ok {
					continue // loop-local variable
				}
				if fa, ok := x.Addr.(*ssa.IndexAddr); ok {
					if al, ok := fa.X.(*ssa.Alloc); ok {
						_ = al
						continue // varargs array
					}
				}
				effects++
				problems = append(problems, "store to memory that outlives the iteration")
				errOnly = false
			case *ssa.Call:
				if bi, ok := x.Call.Value.(*ssa.Builtin); ok {
					if bi.Name() == "append" {
						// appended-to slice: keyed (loaded from map[key]) or a loop-carried accumulator
						base := x.Call.Args[0]
						if lk, ok := base.(*ssa.Lookup); ok && keyed(lk.Index) {
							continue
						}
						if ex, ok := base.(*ssa.Extract); ok {
							if lk, ok := ex.Tuple.(*ssa.Lookup); ok && keyed(lk.Index) {
								continue
							}
						}
						if ph, isPhi := base.(*ssa.Phi); isPhi {
							// an accumulator of an inner loop that starts afresh in every iteration of the
							// map loop (all its entry values are produced inside the body) is per key
							if ph.Block() != header && body[ph.Block()] {
								fresh := true
								for _, e := range ph.Edges {
									ei, isInstr := e.(ssa.Instruction)
									if _, isConst := e.(*ssa.Const); isConst {
										continue
									}
									if !isInstr || ei.Block() == nil || !body[ei.Block()] || ei.Block() == header {
										fresh = false
									}
								}
								if fresh {
									continue
								}
							}
							effects++
							// accumulator ordered by iteration: fine only if it reaches error text only
							if !phiFlowsOnlyToErrors(base) {
								problems = append(problems, "elements are appended to an accumulator in iteration order")
								errOnly = false
							}
						}
					}
					continue
				}
				callee := x.Call.StaticCallee()
				if callee != nil && w.IsProduct(pkgOf(callee)) && mayHaveEffects(w, callee, map[*ssa.Function]bool{}) {
					// a helper whose only effects are map stores under a key it receives as parameter,
					// called with the iteration key for that parameter, is a per-key store
					if ks, ok := keyedEffectsOnly(w, callee); ok {
						all := true
						for k := range ks {
							if k >= len(x.Call.Args) || !keyed(x.Call.Args[k]) {
								all = false
							}
						}
						if all {
							effects++
							errOnly = false
							continue
						}
					}
					// a helper that only enters keys into sets (constant or fresh-empty values): the
					// final state is the same in every order
					if setInsertionsOnly(w, callee, map[*ssa.Function]bool{}) {
						effects++
						errOnly = false
						continue
					}
					effects++
					problems = append(problems, "call of "+FuncName(callee)+" (has effects) once per element, in iteration order")
					errOnly = false
				}
			case *ssa.Return:
				problems = append(problems, "return inside the iteration: the first element in iteration order wins")
				errOnly = false
			}
		}
	}
	if len(problems) == 0 {
		if errOnly && effects > 0 {
			return 1, "iteration order reaches error text only"
		}
		return 0, "effects inside the loop are keyed by the iteration key (per-key stores); order cannot be observed"
	}
	sort.Strings(problems)
	return 2, "map iteration order is observable: " + strings.Join(uniq(problems), "; ") + " — the result would differ between processes (map seed)"
}

func phiFlowsOnlyToErrors(v ssa.Value) bool {
	return flowsOnlyToErrors(v, map[ssa.Value]bool{})
}

func dependsOn(v, on ssa.Value, depth int) bool {
	if v == on {
		return true
	}
	if depth > 6 || v == nil {
		return false
	}
	var ops []*ssa.Value
	if ins, ok := v.(ssa.Instruction); ok {
		ops = ins.Operands(ops)
		for _, o := range ops {
			if *o != nil && dependsOn(*o, on, depth+1) {
				return true
			}
		}
	}
	return false
}

// keyedEffectsOnly: every effect of fn is a map store whose key is one of fn's parameters
// (no other store to memory that outlives the call, no call of a product function with
// effects).  Returns the indices of the key parameters.
func keyedEffectsOnly(w *World, fn *ssa.Function) (map[int]bool, bool) {
	keys := map[int]bool{}
	for _, b := range fn.Blocks {
		for _, ins := range b.Instrs {
			switch x := ins.(type) {
			case *ssa.MapUpdate:
				idx := -1
				for i, p := range fn.Params {
					if x.Key == ssa.Value(p) {
						idx = i
					}
				}
				if idx < 0 {
					return nil, false
				}
				keys[idx] = true
			case *ssa.Store:
				switch a := x.Addr.(type) {
				case *ssa.Alloc:
				case *ssa.IndexAddr:
					if _, ok := a.X.(*ssa.Alloc); !ok {
						return nil, false
					}
				case *ssa.FieldAddr:
					if _, ok := a.X.(*ssa.Alloc); !ok {
						return nil, false
					}
				default:
					return nil, false
				}
			case *ssa.Call:
				if callee := x.Call.StaticCallee(); callee != nil && w.IsProduct(pkgOf(callee)) && mayHaveEffects(w, callee, map[*ssa.Function]bool{}) {
					return nil, false
				}
			}
		}
	}
	return keys, len(keys) > 0
}

// mayHaveEffects: the function (transitively) stores to non-local memory.
func mayHaveEffects(w *World, fn *ssa.Function, seen map[*ssa.Function]bool) bool {
	if seen[fn] || fn.Blocks == nil {
		return false
	}
	seen[fn] = true
	for _, b := range fn.Blocks {
		for _, ins := range b.Instrs {
			switch x := ins.(type) {
			case *ssa.MapUpdate:
				return true
			case *ssa.Store:
				switch a := x.Addr.(type) {
				case *ssa.Alloc:
				case *ssa.IndexAddr:
					if _, ok := a.X.(*ssa.Alloc); !ok {
						return true
					}
				case *ssa.FieldAddr:
					if _, ok := a.X.(*ssa.Alloc); !ok {
						return true
					}
				default:
					return true
				}
			case *ssa.Call:
				if callee := x.Call.StaticCallee(); callee != nil && w.IsProduct(pkgOf(callee)) {
					if mayHaveEffects(w, callee, seen) {
						return true
					}
				}
			}
		}
	}
	return false
}

// ---- ambient state and path taint ---------------------------------------------------

func c14Ambient(w *World, r *Result) {
	rule := "R-C14-ambient"
	denied := 0
	for _, role := range libRoles {
		for _, fn := range w.Funcs(role) {
			for _, b := range fn.Blocks {
				for _, ins := range b.Instrs {
					c, ok := ins.(*ssa.Call)
					if !ok {
						continue
					}
					callee := c.Call.StaticCallee()
					if callee == nil {
						continue
					}
					full := callee.String()
					for _, d := range ambientDeny {
						if strings.HasPrefix(full, d) {
							denied++
							r.Bad(rule, "ambient:"+FuncName(fn)+":"+full, w.Pos(c.Pos()), "library code reads ambient state ("+full+"): the emitted script would depend on more than file contents and target")
						}
					}
				}
			}
		}
	}
	if denied == 0 {
		r.Ok(rule, "ambient:deny-list", "-", "no call into time / random / environment / process / host state in lexer, parser, transpiler or converters")
	}
	// unsafe / reflect
	for _, role := range libRoles {
		for _, imp := range w.Pkgs[role].Types.Imports() {
			if imp.Path() == "unsafe" || imp.Path() == "reflect" {
				r.Bad(rule, "ambient:import:"+role+":"+imp.Path(), "-", "package imports "+imp.Path()+": the static view of calls and data flow is no longer sound")
			}
		}
	}
	r.Ok(rule, "ambient:no-reflection", "-", "library packages import neither unsafe nor reflect")
	// path taint
	taintedFields := map[string]bool{} // "Type.field"
	tainted := map[ssa.Value]bool{}
	var work []ssa.Value
	mark := func(v ssa.Value) {
		if v != nil && !tainted[v] {
			tainted[v] = true
			work = append(work, v)
		}
	}
	nsrc := 0
	var allFns []*ssa.Function
	for _, role := range libRoles {
		allFns = append(allFns, w.Funcs(role)...)
	}
	for _, fn := range allFns {
		for _, b := range fn.Blocks {
			for _, ins := range b.Instrs {
				if c, ok := ins.(*ssa.Call); ok {
					if callee := c.Call.StaticCallee(); callee != nil && pathSources[callee.String()] {
						nsrc++
						mark(c)
					}
				}
			}
		}
	}
	// entry path parameter of Parse is location information as well
	for _, fn := range allFns {
		if fn.Name() == "Parse" && pkgOf(fn) == w.Pkgs["parser"].Types {
			for _, p := range fn.Params[1:] {
				mark(p)
				nsrc++
			}
		}
	}
	var sinks []string
	type bad struct{ key, pos, why string }
	var bads []bad
	stmtIface := w.Pkgs["parser"].Types.Scope().Lookup("Statement").Type().Underlying().(*types.Interface)
	isNodeType := func(t types.Type) bool {
		if p, ok := t.Underlying().(*types.Pointer); ok {
			t = p.Elem()
		}
		n, ok := t.(*types.Named)
		if !ok || n.Obj().Pkg() != w.Pkgs["parser"].Types {
			return false
		}
		if types.Implements(n, stmtIface) || types.Implements(types.NewPointer(n), stmtIface) {
			return true
		}
		switch n.Obj().Name() {
		case "Variable", "IfBranch", "Else", "ValueType":
			return true
		}
		return false
	}
	for len(work) > 0 {
		v := work[len(work)-1]
		work = work[:len(work)-1]
		refs := v.Referrers()
		if refs == nil {
			continue
		}
		for _, ref := range *refs {
			switch x := ref.(type) {
			case *ssa.Extract, *ssa.Phi, *ssa.MakeInterface, *ssa.ChangeType, *ssa.Convert, *ssa.Slice, *ssa.BinOp, *ssa.Field, *ssa.UnOp, *ssa.Index, *ssa.Lookup, *ssa.TypeAssert:
				mark(x.(ssa.Value))
			case *ssa.Store:
				if x.Val != v {
					continue
				}
				switch a := x.Addr.(type) {
				case *ssa.Alloc:
					for _, r2 := range *a.Referrers() {
						if u, ok := r2.(*ssa.UnOp); ok {
							mark(u)
						}
						if fa, ok := r2.(*ssa.FieldAddr); ok {
							_ = fa
						}
					}
				case *ssa.IndexAddr:
					if al, ok := a.X.(*ssa.Alloc); ok {
						for _, r2 := range *al.Referrers() {
							if sl, ok := r2.(*ssa.Slice); ok {
								mark(sl)
							}
						}
					}
				case *ssa.FieldAddr:
					tn := a.X.Type().Underlying().(*types.Pointer).Elem()
					fname := structFieldName(a.X.Type(), a.Field)
					fk := tn.String() + "." + fname
					if isNodeType(tn) {
						bads = append(bads, bad{"taint:node:" + shortType(tn) + "." + fname, w.Pos(x.Pos()), "location information (absolute path / executable directory / working directory) is stored into the tree node field " + shortType(tn) + "." + fname + ": the emitted script would depend on where the sources lie"})
					}
					if !taintedFields[fk] {
						taintedFields[fk] = true
						// all loads of that field anywhere
						for _, f2 := range allFns {
							for _, b2 := range f2.Blocks {
								for _, i2 := range b2.Instrs {
									if fa2, ok := i2.(*ssa.FieldAddr); ok && fa2.Field == a.Field && types.Identical(fa2.X.Type(), a.X.Type()) {
										for _, r3 := range *fa2.Referrers() {
											if u, ok := r3.(*ssa.UnOp); ok {
												mark(u)
											}
										}
									}
									if fv, ok := i2.(*ssa.Field); ok && fv.Field == a.Field && types.Identical(types.NewPointer(fv.X.Type()), a.X.Type()) {
										mark(fv)
									}
								}
							}
						}
					}
				}
			case *ssa.Call:
				callee := x.Call.StaticCallee()
				name := calleeName(x)
				switch {
				case callee == nil:
					// dynamic/invoke: conservatively a leak if it is a Converter method (emission)
					if x.Call.IsInvoke() {
						bads = append(bads, bad{"taint:invoke:" + x.Call.Method.Name(), w.Pos(x.Pos()), "location information is handed to " + x.Call.Method.Name() + " of the converter"})
					}
				case name == "os.Stat" || name == "os.ReadFile" || name == "os.Open" || name == "os.Lstat":
					sinks = append(sinks, name)
				case name == "fmt.Errorf" || name == "errors.New":
					sinks = append(sinks, name)
				case strings.HasPrefix(name, "path/filepath.") || strings.HasPrefix(name, "strings.") || name == "fmt.Sprintf":
					mark(x)
				case name == "(hash.Hash).Write" || strings.Contains(name, "sha256") || strings.Contains(name, "crypto/"):
					bads = append(bads, bad{"taint:hash", w.Pos(x.Pos()), "location information is fed into the hash the namespace prefix is derived from"})
				case w.IsProduct(pkgOf(callee)) && callee.Blocks != nil:
					// bind to the parameter
					for i, a := range x.Call.Args {
						if a == v && i < len(callee.Params) {
							mark(callee.Params[i])
						}
					}
				}
			case *ssa.Return:
				// returned to callers: taint the call sites' results
				fn := x.Parent()
				for ri, rv := range x.Results {
					if rv != v {
						continue
					}
					for _, f2 := range allFns {
						for _, b2 := range f2.Blocks {
							for _, i2 := range b2.Instrs {
								if c2, ok := i2.(*ssa.Call); ok && c2.Call.StaticCallee() == fn {
									if len(x.Results) == 1 {
										mark(c2)
									} else {
										for _, r4 := range *c2.Referrers() {
											if ex, ok := r4.(*ssa.Extract); ok && ex.Index == ri {
												mark(ex)
											}
										}
									}
								}
							}
						}
					}
				}
			case *ssa.MapUpdate:
				bads = append(bads, bad{"taint:map:" + FuncName(x.Parent()), w.Pos(x.Pos()), "location information is stored into a map of the parser"})
			}
		}
	}
	var tf []string
	for f := range taintedFields {
		tf = append(tf, f)
	}
	sort.Strings(tf)
	if nsrc == 0 {
		r.Bad(rule, "taint:sources", "-", "no path-valued ambient source found (filepath.Abs / os.Executable are used on the reference tree)")
	}
	seenBad := map[string]bool{}
	for _, b := range bads {
		if !seenBad[b.key] {
			seenBad[b.key] = true
			r.Bad(rule, b.key, b.pos, b.why)
		}
	}
	if len(bads) == 0 {
		r.Ok(rule, "taint:paths", "-", fmt.Sprintf("path values from %d sources reach only file access (%d sites), error text and the bookkeeping fields %v", nsrc, len(sinks), shortList(tf)))
	}
	for _, f := range tf {
		if strings.HasSuffix(f, ".prefix") || strings.HasSuffix(f, ".usedFuncs") || strings.HasSuffix(f, ".currFunc") || strings.HasSuffix(f, ".name") {
			r.Bad(rule, "taint:field:"+shortName(f), "-", "location information reaches "+shortName(f)+", which determines emitted names")
		}
	}
	// --- prefix: value stored into Parser.prefix
	c14Prefix(w, r, tainted)
}

func shortType(t types.Type) string {
	s := t.String()
	if i := strings.LastIndex(s, "."); i >= 0 {
		return s[i+1:]
	}
	return s
}

func shortName(s string) string {
	if i := strings.LastIndex(s, "/"); i >= 0 {
		return s[i+1:]
	}
	return s
}

func shortList(l []string) []string {
	var out []string
	for _, s := range l {
		out = append(out, shortName(s))
	}
	return out
}

func c14Prefix(w *World, r *Result, tainted map[ssa.Value]bool) {
	PrefixDigestRule(w, r, "R-C14-prefix", tainted)
}

// fileContent: the value is what os.ReadFile returned, possibly handed back by a helper of the
// product that returns it unchanged (or nothing, with an error).
func fileContent(w *World, v ssa.Value, depth int) bool {
	ex, ok := v.(*ssa.Extract)
	if !ok || ex.Index != 0 || depth > 3 {
		return false
	}
	rc, ok := ex.Tuple.(*ssa.Call)
	if !ok {
		return false
	}
	if calleeName(rc) == "os.ReadFile" {
		return true
	}
	callee := rc.Call.StaticCallee()
	if callee == nil || callee.Blocks == nil || !w.IsProduct(pkgOf(callee)) {
		return false
	}
	n := 0
	for _, b := range callee.Blocks {
		ret, ok := b.Instrs[len(b.Instrs)-1].(*ssa.Return)
		if !ok || len(ret.Results) == 0 {
			continue
		}
		if k, ok := ret.Results[0].(*ssa.Const); ok && k.IsNil() {
			continue
		}
		if !fileContent(w, ret.Results[0], depth+1) {
			return false
		}
		n++
	}
	return n > 0
}

// PrefixDigestRule: the namespace prefix of a file is a formatted digest of exactly the bytes read from it.
func PrefixDigestRule(w *World, r *Result, rule string, tainted map[ssa.Value]bool) {
	found := false
	prefixField := parserPrefixField(w)
	for _, fn := range w.Funcs("parser") {
		for _, b := range fn.Blocks {
			for _, ins := range b.Instrs {
				st, ok := ins.(*ssa.Store)
				if !ok {
					continue
				}
				fa, ok := st.Addr.(*ssa.FieldAddr)
				if !ok || prefixField == "" || structFieldName(fa.X.Type(), fa.Field) != prefixField {
					continue
				}
				if c, ok := st.Val.(*ssa.Const); ok && c.Value != nil {
					continue // reset to ""
				}
				found = true
				src := newDeepSrcSet(w)
				src.opaque = map[string]bool{"os.ReadFile": true}
				backward(st.Val, src, map[ssa.Value]bool{})
				var names []string
				for n := range src.calls {
					names = append(names, n)
				}
				sort.Strings(names)
				hashed := false
				for _, n := range names {
					if strings.Contains(n, "Sum") {
						hashed = true
					}
				}
				// the hash input: argument of the Write call on the same hash object
				inputOK := false
				sharedHash := ""
				for _, b2 := range fn.Blocks {
					for _, i2 := range b2.Instrs {
						c, ok := i2.(*ssa.Call)
						if !ok || !c.Call.IsInvoke() || c.Call.Method.Name() != "Write" {
							continue
						}
						// the digest object is made for this file: one that is kept (package level, a field)
						// still holds what earlier files wrote into it
						recvV := c.Call.Value
						for {
							if mi, ok := recvV.(*ssa.MakeInterface); ok {
								recvV = mi.X
							} else if ci, ok := recvV.(*ssa.ChangeInterface); ok {
								recvV = ci.X
							} else {
								break
							}
						}
						if ld, ok := recvV.(*ssa.UnOp); ok && ld.Op == token.MUL {
							switch ld.X.(type) {
							case *ssa.Global, *ssa.FieldAddr:
								sharedHash = w.Pos(c.Pos())
								continue
							}
						}
						if ex, ok := c.Call.Args[0].(*ssa.Extract); ok && ex.Index == 0 {
							if rc, ok := ex.Tuple.(*ssa.Call); ok && calleeName(rc) == "os.ReadFile" && !tainted[c.Call.Args[0]] {
								inputOK = true
							}
						}
					}
				}
				// … or the argument of a one-shot digest function (sha256.Sum256(content)), possibly in a
				// helper that receives the content
				for n, calls := range src.calls {
					if !strings.Contains(n, "Sum") || strings.HasPrefix(n, "invoke:") {
						continue
					}
					for _, c := range calls {
						if len(c.Call.Args) != 1 {
							continue
						}
						in := src.resolve(c.Call.Args[0])
						if !tainted[in] && (fileContent(w, in, 0) || fileContent(w, rootOf(in, 0), 0)) {
							inputOK = true
						}
						if ex, ok := rootOf(in, 0).(*ssa.Extract); ok && ex.Index == 0 {
							if rc, ok := ex.Tuple.(*ssa.Call); ok && calleeName(rc) == "os.ReadFile" && !tainted[in] {
								inputOK = true
							}
						}
						if ex, ok := in.(*ssa.Extract); ok && ex.Index == 0 {
							if rc, ok := ex.Tuple.(*ssa.Call); ok && calleeName(rc) == "os.ReadFile" && !tainted[in] {
								inputOK = true
							}
						}
					}
				}
				bad := []string{}
				for _, n := range names {
					switch {
					case strings.Contains(n, "sha256"), strings.Contains(n, "Sum"), n == "fmt.Sprintf", strings.HasPrefix(n, "builtin:"), strings.Contains(n, "hash"), n == "encoding/hex.EncodeToString", n == "os.ReadFile":
					default:
						bad = append(bad, n)
					}
				}
				if tainted[st.Val] {
					bad = append(bad, "location information")
				}
				switch {
				case sharedHash != "":
					r.Bad(rule, "prefix:content-hash", sharedHash, "the digest object the file content is written to is kept between files (package level or a field) and never made anew: the prefix of a file depends on the files digested before it, and one file reached along two import paths gets two prefixes")
				case !hashed || !inputOK:
					r.Bad(rule, "prefix:content-hash", w.Pos(st.Pos()), fmt.Sprintf("the namespace prefix is not the digest of exactly the bytes read from the file (hash %v, input is file content only %v; depends on %v)", hashed, inputOK, names))
				case len(bad) > 0:
					r.Bad(rule, "prefix:content-hash", w.Pos(st.Pos()), fmt.Sprintf("the namespace prefix also depends on %v", bad))
				default:
					r.Ok(rule, "prefix:content-hash", w.Pos(st.Pos()), "prefix = formatted digest of the bytes returned by os.ReadFile; no other input")
				}
			}
		}
	}
	if !found {
		r.Bad(rule, "prefix:store", "-", "no computed value is stored into the parser's prefix field")
	}
}

// ---- package-level state --------------------------------------------------------------

func c14State(w *World, r *Result) {
	rule := "R-C14-state"
	nglob := GlobalStateRule(w, r, rule)
	r.Analysed["library_globals"] = nglob
	c14TranspileState(w, r, rule)
}

// GlobalStateRule: no package-level variable of the library is written after initialisation.
func GlobalStateRule(w *World, r *Result, rule string) int {
	nglob := 0
	for _, role := range libRoles {
		sp := w.SSA[role]
		for _, m := range sp.Members {
			g, ok := m.(*ssa.Global)
			if !ok || strings.HasPrefix(g.Name(), "init$") {
				continue
			}
			nglob++
			key := "state:global:" + role + "." + g.Name()
			var writers []string
			for _, fn := range w.Funcs(role) {
				if fn.Name() == "init" || strings.HasPrefix(fn.Name(), "init#") {
					continue
				}
				for _, b := range fn.Blocks {
					for _, ins := range b.Instrs {
						switch x := ins.(type) {
						case *ssa.Store:
							if x.Addr == g {
								writers = append(writers, FuncName(fn))
							}
							if ia, ok := x.Addr.(*ssa.IndexAddr); ok {
								if u, ok := ia.X.(*ssa.UnOp); ok && u.X == g {
									writers = append(writers, FuncName(fn))
								}
							}
						case *ssa.MapUpdate:
							if u, ok := x.Map.(*ssa.UnOp); ok && u.X == g {
								writers = append(writers, FuncName(fn))
							}
						case *ssa.Call:
							// append(global, …) stored back is caught by Store; delete(m, k) on a global map
							if bi, ok := x.Call.Value.(*ssa.Builtin); ok && bi.Name() == "delete" {
								if u, ok := x.Call.Args[0].(*ssa.UnOp); ok && u.X == g {
									writers = append(writers, FuncName(fn))
								}
							}
						}
					}
				}
			}
			// other packages writing it (exported globals)
			if len(writers) == 0 {
				r.Ok(rule, key, w.Pos(g.Pos()), "package-level table is only read after initialisation")
			} else {
				r.Bad(rule, key, w.Pos(g.Pos()), fmt.Sprintf("package-level variable is written by %v: one transpilation can influence the next (and the other target)", uniq(writers)))
			}
		}
	}
	// closures with state of their own, created while the package is initialised: whatever they
	// are stored into (a package-level default value that is copied for every converter) shares
	// that state between all uses in the process
	for _, role := range libRoles {
		initFn := w.SSA[role].Func("init")
		if initFn == nil {
			continue
		}
		reach := map[*ssa.Function]bool{}
		var walk func(f *ssa.Function, d int)
		walk = func(f *ssa.Function, d int) {
			if f == nil || reach[f] || d > 4 || f.Blocks == nil {
				return
			}
			reach[f] = true
			for _, b := range f.Blocks {
				for _, ins := range b.Instrs {
					if c, ok := ins.(ssa.CallInstruction); ok {
						if callee := c.Common().StaticCallee(); callee != nil && callee.Pkg == initFn.Pkg {
							walk(callee, d+1)
						}
					}
				}
			}
		}
		walk(initFn, 0)
		for f := range reach {
			for _, b := range f.Blocks {
				for _, ins := range b.Instrs {
					mc, ok := ins.(*ssa.MakeClosure)
					if !ok {
						continue
					}
					anon, ok := mc.Fn.(*ssa.Function)
					if !ok {
						continue
					}
					writes := ""
					for _, ab := range anon.Blocks {
						for _, ai := range ab.Instrs {
							if st, ok := ai.(*ssa.Store); ok {
								if fv, ok := st.Addr.(*ssa.FreeVar); ok {
									writes = fv.Name()
								}
							}
						}
					}
					if writes != "" {
						r.Bad(rule, "state:closure:"+role+"."+FuncName(f), w.Pos(mc.Pos()), fmt.Sprintf("a closure that updates its captured variable %s is created during package initialisation (in %s): every value it is copied into shares that counter, so one transpilation continues the numbering of the previous one", writes, FuncName(f)))
					}
				}
			}
		}
	}
	return nglob
}

func c14TranspileState(w *World, r *Result, rule string) {
	// Transpile: converter field assigned from the argument before any use; parser created inside
	for _, fn := range w.Funcs("transpiler") {
		if fn.Name() != "Transpile" || fn.Signature.Recv() == nil {
			continue
		}
		var convParam *ssa.Parameter
		iface := w.ConverterInterface()
		for _, p := range fn.Params {
			if types.Identical(p.Type().Underlying(), iface) {
				convParam = p
			}
		}
		var store *ssa.Store
		newParser := false
		var firstUse ssa.Instruction
		for _, b := range fn.Blocks {
			for _, ins := range b.Instrs {
				switch x := ins.(type) {
				case *ssa.Store:
					if fa, ok := x.Addr.(*ssa.FieldAddr); ok && x.Val == convParam && fa.X == fn.Params[0] {
						store = x
					}
				case *ssa.Call:
					if callee := x.Call.StaticCallee(); callee != nil {
						if callee.Name() == "New" && pkgOf(callee) == w.Pkgs["parser"].Types {
							newParser = true
						}
						if pkgOf(callee) == w.Pkgs["transpiler"].Types && callee.Signature.Recv() != nil && firstUse == nil {
							firstUse = x
						}
					}
					if x.Call.IsInvoke() && firstUse == nil {
						firstUse = x
					}
				}
			}
		}
		switch {
		case convParam == nil || store == nil:
			r.Bad(rule, "state:transpile:converter", w.Pos(fn.Pos()), "Transpile does not store its converter argument into the transpiler before translating: a converter from an earlier call would be used")
		case firstUse != nil && !(store.Block().Dominates(firstUse.Block()) && (store.Block() != firstUse.Block() || instrIndex(store) < instrIndex(firstUse))):
			r.Bad(rule, "state:transpile:converter", w.Pos(store.Pos()), "the converter field is used before it is assigned from this call's argument")
		default:
			r.Ok(rule, "state:transpile:converter", w.Pos(store.Pos()), "converter field assigned from the argument before the first use")
		}
		if newParser {
			r.Ok(rule, "state:transpile:parser", w.Pos(fn.Pos()), "a new parser is created inside every Transpile call")
		} else {
			r.Bad(rule, "state:transpile:parser", w.Pos(fn.Pos()), "Transpile does not create its parser: parser state (call graph, prefix) would survive between calls")
		}
	}
	// the transpiler struct holds nothing but the converter
	if o := w.Pkgs["transpiler"].Types.Scope().Lookup("transpiler"); o != nil {
		if st, ok := o.Type().Underlying().(*types.Struct); ok {
			var extra []string
			iface := w.ConverterInterface()
			for i := 0; i < st.NumFields(); i++ {
				if !types.Identical(st.Field(i).Type().Underlying(), iface) {
					extra = append(extra, st.Field(i).Name())
				}
			}
			if len(extra) == 0 {
				r.Ok(rule, "state:transpiler-fields", w.Pos(o.Pos()), "the transpiler object stores only the current converter")
			} else {
				// extra fields are fine if every one is assigned in Transpile before use; report for review
				r.Bad(rule, "state:transpiler-fields:"+strings.Join(extra, ","), w.Pos(o.Pos()), fmt.Sprintf("the transpiler object carries additional state %v across calls", extra))
			}
		}
	}
}

// setInsertionsOnly: everything fn (and what it calls) does to memory that outlives it is to
// enter a key into a map with a value that does not depend on when it happens: a constant, an
// empty struct, a freshly made empty map. Such insertions commute and are idempotent.
func setInsertionsOnly(w *World, fn *ssa.Function, seen map[*ssa.Function]bool) bool {
	if seen[fn] {
		return true
	}
	if fn.Blocks == nil {
		return false
	}
	seen[fn] = true
	timeless := func(v ssa.Value) bool {
		switch x := v.(type) {
		case *ssa.Const:
			return true
		case *ssa.MakeMap:
			return true
		case *ssa.UnOp:
			if al, ok := x.X.(*ssa.Alloc); ok && x.Op == token.MUL {
				if st, ok := al.Type().Underlying().(*types.Pointer).Elem().Underlying().(*types.Struct); ok && st.NumFields() == 0 {
					return true
				}
			}
		case *ssa.Phi:
			for _, e := range x.Edges {
				switch e.(type) {
				case *ssa.Const, *ssa.MakeMap:
				case *ssa.Extract, *ssa.Lookup:
					// the entry found under the same key (kept as it is)
				default:
					return false
				}
			}
			return true
		}
		return false
	}
	for _, b := range fn.Blocks {
		for _, ins := range b.Instrs {
			switch x := ins.(type) {
			case *ssa.MapUpdate:
				if !timeless(x.Value) {
					return false
				}
			case *ssa.Store:
				switch a := x.Addr.(type) {
				case *ssa.Alloc:
				case *ssa.IndexAddr:
					if _, ok := a.X.(*ssa.Alloc); !ok {
						return false
					}
				case *ssa.FieldAddr:
					if _, ok := a.X.(*ssa.Alloc); !ok {
						return false
					}
				default:
					return false
				}
			case *ssa.Call:
				if callee := x.Call.StaticCallee(); callee != nil && w.IsProduct(pkgOf(callee)) {
					if mayHaveEffects(w, callee, map[*ssa.Function]bool{}) && !setInsertionsOnly(w, callee, seen) {
						return false
					}
				}
			}
		}
	}
	return true
}
