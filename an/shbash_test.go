package an

import "testing"

func TestScanBash(t *testing.T) {
	line := Tmpl{Lit{`_h1="$(if [ "`}, Hole{Origin: "L"}, Lit{`" -eq "`}, Hole{Origin: "R"}, Lit{`" ]; then echo 1; else echo 0; fi)"`}}
	r := ScanBash(line)
	if !r.Closed {
		t.Fatalf("not closed: %s", r.Problem)
	}
	if len(r.Holes) != 2 || r.Holes[0].Quote != "dq" || r.Holes[0].Cmd != "[" || r.Holes[0].InEval {
		t.Fatalf("holes: %+v", r.Holes)
	}
	if len(r.Opens) != 1 || len(r.Closes) != 1 {
		t.Fatalf("kw: %v %v", r.Opens, r.Closes)
	}
	r = ScanBash(Tmpl{Lit{`eval "echo \"`}, Hole{Origin: "C"}, Lit{`\" ${_h0} `}, Hole{Origin: "P"}, Lit{`"`}})
	if !r.Closed || !r.Holes[0].InEval || !r.Holes[1].InEval {
		t.Fatalf("eval: %+v %s", r.Holes, r.Problem)
	}
	r = ScanBash(Tmpl{Lit{`echo "`}, Join{Elem: Tmpl{Hole{Origin: "V"}}, Sep: lit(" ")}, Lit{`"`}})
	if !r.Closed || r.Holes[0].Cmd != "echo" || r.Holes[0].ArgIndex != 1 || !r.Holes[0].WordStart || r.Holes[0].Quote != "dq" {
		t.Fatalf("echo: %+v", r.Holes)
	}
	r = ScanBash(Tmpl{Lit{`echo "panic: `}, Hole{Origin: "V"}, Lit{`"`}})
	if r.Holes[0].WordStart {
		t.Fatalf("panic prefix: %+v", r.Holes)
	}
	r = ScanBash(Tmpl{Hole{Origin: "N"}, Lit{` `}, Join{Elem: Tmpl{Lit{`"`}, Hole{Origin: "A"}, Lit{`"`}}, Sep: lit(" ")}})
	if !r.Holes[0].IsCmdWord || r.Holes[1].Quote != "dq" || r.Holes[1].IsCmdWord {
		t.Fatalf("call: %+v", r.Holes)
	}
	r = ScanBash(Tmpl{Lit{`_ll=$(((${3}-${2})+1))`}})
	if !r.Closed || len(r.Exps) != 2 || !r.Exps[0].InArith {
		t.Fatalf("arith: %+v %s", r.Exps, r.Problem)
	}
	r = ScanBash(Tmpl{Lit{`for ((_c=${_l};_c<${_i};_c++)); do`}})
	if !r.Closed || len(r.Opens) != 1 || r.Opens[0] != "for" {
		t.Fatalf("for: %+v %v %s", r.Opens, r.Closes, r.Problem)
	}
	r = ScanBash(Tmpl{Hole{Origin: "F"}, Lit{`() {`}})
	if !r.Closed || len(r.Opens) != 1 || r.Opens[0] != "{" {
		t.Fatalf("func: %+v %s", r.Opens, r.Problem)
	}
	r = ScanBash(Tmpl{Lit{`local _n=$(eval "echo \${${1}}")`}})
	if !r.Closed || len(r.Exps) != 1 || !r.Exps[0].InEval || r.Exps[0].Name != "1" {
		t.Fatalf("indirect: %+v %s", r.Exps, r.Problem)
	}
	r = ScanBash(Tmpl{Lit{`x="abc`}})
	if r.Closed {
		t.Fatalf("unterminated accepted")
	}
	r = ScanBash(Tmpl{Lit{`read -p "`}, Hole{Origin: "P"}, Lit{`" _h`}, Num{"n"}})
	if !r.Closed || r.Holes[0].Cmd != "read" || r.Holes[0].Quote != "dq" {
		t.Fatalf("read: %+v", r.Holes)
	}
	r = ScanBash(Tmpl{Lit{`eval "`}, Hole{Origin: "H"}, Lit{`=(`}, Join{Elem: Tmpl{Lit{`\"`}, Hole{Origin: "V"}, Lit{`\"`}}, Sep: lit(" ")}, Lit{`)"`}})
	if !r.Closed || !r.Holes[1].InEval {
		t.Fatalf("sliceinst: %+v %s", r.Holes, r.Problem)
	}
}
