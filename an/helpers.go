package an

import (
	"go/types"
	"regexp"

	"golang.org/x/tools/go/ssa"
)

// ---------------------------------------------------------------------------
// Helper closure: rules that ask "does this parse function do X before it
// builds its node" must not depend on whether X is written inline or in an
// extracted helper.  The closure of a function is the function itself plus the
// product functions it calls statically (or hands over as a function value /
// bound method) that are not parse functions themselves, to a stated depth.
// A parse function is one that returns a syntax-tree interface (Statement /
// Expression) — those have their own obligations.
// ---------------------------------------------------------------------------

// staticTargets: product functions named by the instruction as callee or as a
// function value (closure, bound method wrapper, plain function argument).
func staticTargets(w *World, ins ssa.Instruction) []*ssa.Function {
	var out []*ssa.Function
	add := func(f *ssa.Function) {
		if f == nil {
			return
		}
		if f.Synthetic != "" && len(f.Blocks) > 0 {
			// bound method wrapper / thunk: look through to the method it calls
			for _, b := range f.Blocks {
				for _, i2 := range b.Instrs {
					if c, ok := i2.(*ssa.Call); ok {
						if t := c.Call.StaticCallee(); t != nil && t != f {
							out = append(out, t)
						}
					}
				}
			}
			return
		}
		out = append(out, f)
	}
	if c, ok := ins.(ssa.CallInstruction); ok {
		add(c.Common().StaticCallee())
	}
	var ops []*ssa.Value
	ops = ins.Operands(ops)
	for _, o := range ops {
		switch x := (*o).(type) {
		case *ssa.MakeClosure:
			if f, ok := x.Fn.(*ssa.Function); ok {
				add(f)
			}
		case *ssa.Function:
			add(x)
		}
	}
	if mc, ok := ins.(*ssa.MakeClosure); ok {
		if f, ok := mc.Fn.(*ssa.Function); ok {
			add(f)
		}
	}
	var prod []*ssa.Function
	for _, f := range out {
		if w.IsProduct(pkgOf(f)) && f.Blocks != nil {
			prod = append(prod, f)
		}
	}
	return prod
}

// returnsNode: the function returns a syntax-tree interface value.
func returnsNode(f *ssa.Function) bool {
	res := f.Signature.Results()
	for i := 0; i < res.Len(); i++ {
		t := res.At(i).Type()
		if _, ok := t.Underlying().(*types.Interface); ok && !isErrorType(t) {
			if n := namedName(t); n == "Statement" || n == "Expression" {
				return true
			}
		}
	}
	return false
}

// helperClosure: fn and the non-parse product functions reachable from it within depth calls.
func helperClosure(w *World, fn *ssa.Function, depth int) []*ssa.Function {
	seen := map[*ssa.Function]bool{fn: true}
	out := []*ssa.Function{fn}
	var walk func(f *ssa.Function, d int)
	walk = func(f *ssa.Function, d int) {
		if d > depth {
			return
		}
		for _, b := range f.Blocks {
			for _, ins := range b.Instrs {
				for _, t := range staticTargets(w, ins) {
					if seen[t] || returnsNode(t) {
						continue
					}
					seen[t] = true
					out = append(out, t)
					walk(t, d+1)
				}
			}
		}
	}
	walk(fn, 1)
	return out
}

// dependsOnCallInto: the value is computed (through phis, negations, comparisons, extracts)
// from the result of a call whose static target lies in the given set.
func dependsOnCallInto(w *World, v ssa.Value, set map[*ssa.Function]bool, seen map[ssa.Value]bool) bool {
	if v == nil || seen[v] {
		return false
	}
	seen[v] = true
	switch x := v.(type) {
	case *ssa.Call:
		for _, t := range staticTargets(w, x) {
			if set[t] {
				return true
			}
		}
		return false
	case *ssa.Extract:
		return dependsOnCallInto(w, x.Tuple, set, seen)
	case *ssa.UnOp:
		return dependsOnCallInto(w, x.X, set, seen)
	case *ssa.BinOp:
		return dependsOnCallInto(w, x.X, set, seen) || dependsOnCallInto(w, x.Y, set, seen)
	case *ssa.Phi:
		for _, e := range x.Edges {
			if dependsOnCallInto(w, e, set, seen) {
				return true
			}
		}
	case *ssa.MakeInterface:
		return dependsOnCallInto(w, x.X, set, seen)
	case *ssa.ChangeType:
		return dependsOnCallInto(w, x.X, set, seen)
	}
	return false
}

// ---------------------------------------------------------------------------
// Structural identification of the parser's primitives (never by name)
// ---------------------------------------------------------------------------

// isTokenConsumer: a parser method with pointer receiver that returns a lexer token and
// advances an int field of its receiver (eat).
func isTokenConsumer(fn *ssa.Function) bool {
	if fn == nil || fn.Blocks == nil || fn.Signature.Recv() == nil {
		return false
	}
	if _, ok := fn.Signature.Recv().Type().Underlying().(*types.Pointer); !ok {
		return false
	}
	res := fn.Signature.Results()
	if res.Len() != 1 || namedName(res.At(0).Type()) != "Token" {
		return false
	}
	for _, b := range fn.Blocks {
		for _, ins := range b.Instrs {
			if st, ok := ins.(*ssa.Store); ok {
				if fa, ok := st.Addr.(*ssa.FieldAddr); ok && fa.X == ssa.Value(fn.Params[0]) && isInt(st.Val.Type()) {
					return true
				}
			}
		}
	}
	return false
}

// isTokenPeek: a parser method that returns a lexer token without storing to its receiver.
func isTokenPeek(fn *ssa.Function) bool {
	if fn == nil || fn.Blocks == nil || fn.Signature.Recv() == nil {
		return false
	}
	res := fn.Signature.Results()
	if res.Len() != 1 || namedName(res.At(0).Type()) != "Token" {
		return false
	}
	return !isTokenConsumer(fn) && !callsConsumer(fn, 0)
}

func callsConsumer(fn *ssa.Function, depth int) bool {
	if depth > 3 {
		return false
	}
	for _, b := range fn.Blocks {
		for _, ins := range b.Instrs {
			if c, ok := ins.(*ssa.Call); ok {
				if callee := c.Call.StaticCallee(); callee != nil && callee != fn && callee.Blocks != nil && callee.Pkg == fn.Pkg {
					if isTokenConsumer(callee) || callsConsumer(callee, depth+1) {
						return true
					}
				}
			}
		}
	}
	return false
}

// isDefinitionCtor: a plain function of the product that builds a definition struct from its
// parameters (NewVariable): no receiver, one result that is a named struct of its package.
func isDefinitionCtor(fn *ssa.Function, typeName string) bool {
	if fn == nil || fn.Signature.Recv() != nil {
		return false
	}
	res := fn.Signature.Results()
	if res.Len() != 1 || namedName(res.At(0).Type()) != typeName {
		return false
	}
	_, isStruct := res.At(0).Type().Underlying().(*types.Struct)
	return isStruct && len(fn.Params) >= 1
}

// returnsStatementList: the function returns a list of statements (a block parser).
func returnsStatementList(fn *ssa.Function) bool {
	if fn == nil {
		return false
	}
	res := fn.Signature.Results()
	for i := 0; i < res.Len(); i++ {
		if sl, ok := res.At(i).Type().Underlying().(*types.Slice); ok && namedName(sl.Elem()) == "Statement" {
			return true
		}
	}
	return false
}

// parserPrefixField: the string field of the parser that carries the file's namespace prefix,
// found by its use: the field whose value is handed to the methods of the parsing context
// (lookups, definitions, the key builder) most often.
func parserPrefixField(w *World) string {
	cf, err := buildCtxFacts(w)
	if err != nil {
		return ""
	}
	count := map[string]int{}
	for _, fn := range w.Funcs("parser") {
		for _, b := range fn.Blocks {
			for _, ins := range b.Instrs {
				c, ok := ins.(*ssa.Call)
				if !ok {
					continue
				}
				callee := c.Call.StaticCallee()
				if callee == nil || callee.Signature.Recv() == nil || !cf.isCtx(callee.Signature.Recv().Type()) {
					continue
				}
				for _, a := range c.Call.Args[1:] {
					u, ok := a.(*ssa.UnOp)
					if !ok || !isString(u.Type()) {
						continue
					}
					if fa, ok := u.X.(*ssa.FieldAddr); ok {
						if pt, ok := fa.X.Type().Underlying().(*types.Pointer); ok && namedName(pt.Elem()) == "Parser" {
							count[structFieldName(fa.X.Type(), fa.Field)]++
						}
					}
				}
			}
		}
	}
	best, n := "", 0
	for f, c := range count {
		if c > n || (c == n && f < best) {
			best, n = f, c
		}
	}
	return best
}

// counterRoles: the names of the converter's helper-variable counter (the counter that numbers
// the helper a value-producing method hands back) and of its function counter (the counter in
// the prefix of mangled locals), read from the templates.
func counterRoles(b *Backend) (helper string, function string) {
	cnt := map[string]int{}
	re := regexp.MustCompile(`⟨#field:(\w+)@`)
	for _, mf := range b.X.Methods {
		for _, rv := range mf.Returns {
			var ts []Tmpl
			switch v := rv.(type) {
			case StrV:
				ts = append(ts, v.T)
			case ListV:
				for _, el := range v.uniform() {
					ts = append(ts, asTmpl(el))
				}
			}
			for _, t := range ts {
				for _, m := range re.FindAllStringSubmatch(t.String(), -1) {
					cnt[m[1]]++
				}
			}
		}
	}
	n := 0
	for f, c := range cnt {
		if c > n || (c == n && f < helper) {
			helper, n = f, c
		}
	}
	// function counter: the counter inside the mangled option of the in-function choice
	if cond, idx, ok := inFunctionChoice(b); ok {
		_ = cond
		var scan func(t Tmpl)
		scan = func(t Tmpl) {
			for _, p := range t {
				switch p := p.(type) {
				case Alt:
					if len(p.Opts) == 2 && p.Cond == cond && function == "" {
						if m := regexp.MustCompile(`⟨#field:(\w+)⟩`).FindStringSubmatch(p.Opts[idx].String()); m != nil {
							function = m[1]
						}
					}
					for _, o := range p.Opts {
						scan(o)
					}
				case Rep:
					scan(p.Body)
				case Join:
					scan(p.Elem)
				}
			}
		}
		for _, mf := range b.X.Methods {
			for _, em := range mf.Emissions {
				scan(em.T)
			}
		}
	}
	return helper, function
}
