package an

import (
	"fmt"
	"go/constant"
	"go/token"
	"go/types"
	"sort"
	"strings"

	"golang.org/x/tools/go/ssa"
)

func init() {
	Registry["C07"] = runC07
	Registry["C09"] = runC09
}

// ---- context roles --------------------------------------------------------------------

type ctxFacts struct {
	w         *World
	ctxType   *types.Named
	mutators  map[*ssa.Function]bool // methods of context that update its maps
	cloneLike map[*ssa.Function]bool // methods that return an updated clone of the receiver
	lookups   map[*ssa.Function]bool // methods returning (T, bool) from a map lookup
	clone     *ssa.Function
	scopeQ    map[*ssa.Function]bool   // scope-stack queries taking a scope argument
	scopeQK   map[*ssa.Function]string // queries for one kind of scope (inLoop()): the scope constant they stand for
	globalQ   *ssa.Function            // "current scope is the program scope"
}

func buildCtxFacts(w *World) (*ctxFacts, error) {
	cf := &ctxFacts{w: w, mutators: map[*ssa.Function]bool{}, lookups: map[*ssa.Function]bool{}, scopeQ: map[*ssa.Function]bool{}}
	// the context type: struct of maps that is passed to the parse functions
	scope := w.Pkgs["parser"].Types.Scope()
	for _, n := range scope.Names() {
		tn, ok := scope.Lookup(n).(*types.TypeName)
		if !ok {
			continue
		}
		named, ok := tn.Type().(*types.Named)
		if !ok {
			continue
		}
		st, ok := named.Underlying().(*types.Struct)
		if !ok {
			continue
		}
		maps := 0
		for i := 0; i < st.NumFields(); i++ {
			if _, ok := st.Field(i).Type().Underlying().(*types.Map); ok {
				maps++
			}
		}
		if maps >= 2 && named.NumMethods() > 3 {
			cf.ctxType = named
		}
	}
	if cf.ctxType == nil {
		return nil, fmt.Errorf("parser context type (struct of maps) not found")
	}
	for _, fn := range w.Funcs("parser") {
		recv := fn.Signature.Recv()
		if recv == nil || !types.Identical(recv.Type(), cf.ctxType) {
			continue
		}
		updates, lookup, cloneCalls := false, false, 0
		for _, b := range fn.Blocks {
			for _, ins := range b.Instrs {
				switch x := ins.(type) {
				case *ssa.MapUpdate:
					updates = true
				case *ssa.Lookup:
					if x.CommaOk {
						lookup = true
					}
				case *ssa.Call:
					if callee := x.Call.StaticCallee(); callee != nil && strings.HasPrefix(callee.String(), "maps.Clone") {
						cloneCalls++
					}
					// a table of the context handed to a helper (function or instance of a generic one)
					// that stores into it or looks a name up in it
					u, l := cf.tableHelperUse(x)
					updates = updates || u
					lookup = lookup || l
				}
			}
		}
		res := fn.Signature.Results()
		switch {
		case cloneCalls >= 2 && res.Len() == 1 && types.Identical(res.At(0).Type(), cf.ctxType):
			cf.clone = fn
		case updates:
			cf.mutators[fn] = true
		case lookup && res.Len() == 2 && isBool(res.At(1).Type()) && (len(fn.Params) <= 2 || true):
			// exported through helper lookups (findVariable → buildPrefixedName + lookup)
			cf.lookups[fn] = true
		}
		if res.Len() == 1 && isBool(res.At(0).Type()) {
			if len(fn.Params) == 2 && isNamed(fn.Params[1].Type(), "scope") {
				cf.scopeQ[fn] = true
			}
			if len(fn.Params) == 1 {
				// global(): compares the current scope with the program scope constant
				for _, b := range fn.Blocks {
					for _, ins := range b.Instrs {
						if bo, ok := ins.(*ssa.BinOp); ok && bo.Op == token.EQL {
							for _, side := range []ssa.Value{bo.X, bo.Y} {
								if k, ok := side.(*ssa.Const); ok && k.Value != nil && k.Value.Kind() == constant.String && isNamed(k.Type(), "scope") {
									cf.globalQ = fn
								}
							}
						}
					}
				}
			}
		}
	}
	cf.scopeCounterQueries()
	// a method that returns a changed clone of its receiver (enter a nested scope: clone, then
	// update the clone) is itself a way of cloning, not a way of changing the receiver
	if cf.clone != nil {
		for _, fn := range w.Funcs("parser") {
			recv := fn.Signature.Recv()
			if recv == nil || !types.Identical(recv.Type(), cf.ctxType) || fn == cf.clone {
				continue
			}
			res := fn.Signature.Results()
			if res.Len() != 1 || !types.Identical(res.At(0).Type(), cf.ctxType) {
				continue
			}
			// (also a method that only removes from the clone: the context a function body starts with)
			if !cf.mutators[fn] && len(cf.mutations(fn)) == 0 {
				continue
			}
			onClone := func(o map[string]bool) bool {
				return len(o) > 0 && !o["param"] && !o["other"] && !o["captured"]
			}
			good := true
			for _, b := range fn.Blocks {
				if ret, ok := b.Instrs[len(b.Instrs)-1].(*ssa.Return); ok && len(ret.Results) == 1 {
					if !onClone(cf.ctxOrigin(ret.Results[0], map[ssa.Value]bool{})) {
						good = false
					}
				}
			}
			for _, m := range cf.mutations(fn) {
				base := m.ctx
				var o map[string]bool
				if al, ok := base.(*ssa.Alloc); ok {
					o = map[string]bool{}
					for _, rr := range *al.Referrers() {
						if st, ok := rr.(*ssa.Store); ok && st.Addr == ssa.Value(al) {
							for k := range cf.ctxOrigin(st.Val, map[ssa.Value]bool{}) {
								o[k] = true
							}
						}
					}
				} else {
					o = cf.ctxOrigin(base, map[ssa.Value]bool{})
				}
				if !onClone(o) {
					good = false
				}
			}
			if good {
				if cf.cloneLike == nil {
					cf.cloneLike = map[*ssa.Function]bool{}
				}
				cf.cloneLike[fn] = true
			}
		}
		for fn := range cf.cloneLike {
			delete(cf.mutators, fn)
		}
	}
	// a method that hands on what another lookup returned (findVariable → lookupVariable) is a lookup too
	for changed := true; changed; {
		changed = false
		for _, fn := range w.Funcs("parser") {
			recv := fn.Signature.Recv()
			if recv == nil || !types.Identical(recv.Type(), cf.ctxType) || cf.lookups[fn] || cf.mutators[fn] {
				continue
			}
			res := fn.Signature.Results()
			if res.Len() != 2 || !isBool(res.At(1).Type()) {
				continue
			}
			wraps := false
			for _, b := range fn.Blocks {
				for _, ins := range b.Instrs {
					if c, ok := ins.(*ssa.Call); ok {
						if callee := c.Call.StaticCallee(); callee != nil && cf.lookups[callee] && types.Identical(callee.Signature.Results().At(0).Type(), res.At(0).Type()) {
							wraps = true
						}
					}
				}
			}
			if wraps {
				cf.lookups[fn] = true
				changed = true
			}
		}
	}
	if cf.clone == nil {
		return nil, fmt.Errorf("context clone method not found")
	}
	return cf, nil
}

func (cf *ctxFacts) isCtx(t types.Type) bool { return types.Identical(t, cf.ctxType) }

// ctxTableBase: v is a map kept in a field of a context value; the context value (or the address of its cell).
func (cf *ctxFacts) ctxTableBase(v ssa.Value) ssa.Value {
	if _, isMap := v.Type().Underlying().(*types.Map); !isMap {
		return nil
	}
	switch x := v.(type) {
	case *ssa.ChangeType:
		return cf.ctxTableBase(x.X)
	case *ssa.Field:
		if cf.isCtx(x.X.Type()) {
			return x.X
		}
	case *ssa.UnOp:
		if fa, ok := x.X.(*ssa.FieldAddr); ok {
			if pt, ok := fa.X.Type().Underlying().(*types.Pointer); ok && cf.isCtx(pt.Elem()) {
				return fa.X
			}
		}
	}
	return nil
}

// tableHelperUse: the call hands a table of a context to a function of the parser that is not a
// method of the context; what that function does with the parameter (store / look-up with ok).
func (cf *ctxFacts) tableHelperUse(c *ssa.Call) (updates, lookup bool) {
	callee := c.Call.StaticCallee()
	if callee == nil || callee.Blocks == nil || c.Call.IsInvoke() {
		return
	}
	if callee.Pkg == nil && callee.Origin() != nil {
		if callee.Origin().Pkg == nil || callee.Origin().Pkg.Pkg != cf.ctxType.Obj().Pkg() {
			return
		}
	} else if callee.Pkg == nil || callee.Pkg.Pkg != cf.ctxType.Obj().Pkg() {
		return
	}
	if recv := callee.Signature.Recv(); recv != nil && types.Identical(recv.Type(), cf.ctxType) {
		return
	}
	for i, a := range c.Call.Args {
		if cf.ctxTableBase(a) == nil || i >= len(callee.Params) {
			continue
		}
		p := callee.Params[i]
		if p.Referrers() == nil {
			continue
		}
		for _, r := range *p.Referrers() {
			switch y := r.(type) {
			case *ssa.MapUpdate:
				if y.Map == ssa.Value(p) {
					updates = true
				}
			case *ssa.Lookup:
				if y.X == ssa.Value(p) && y.CommaOk {
					lookup = true
				}
			}
		}
	}
	return
}

// ctxOrigin: where a context value comes from: "param", "clone", "fresh", "other".
func (cf *ctxFacts) ctxOrigin(v ssa.Value, seen map[ssa.Value]bool) map[string]bool {
	out := map[string]bool{}
	if seen[v] {
		return out
	}
	seen[v] = true
	switch x := v.(type) {
	case *ssa.Parameter:
		out["param"] = true
	case *ssa.Call:
		callee := x.Call.StaticCallee()
		switch {
		case callee == cf.clone || callee != nil && cf.cloneLike[callee]:
			out["clone"] = true
		case callee != nil && types.Identical(callee.Signature.Results().At(0).Type(), cf.ctxType) && callee.Signature.Recv() == nil:
			out["fresh"] = true
		default:
			out["other"] = true
		}
	case *ssa.Phi:
		for _, e := range x.Edges {
			for k := range cf.ctxOrigin(e, seen) {
				out[k] = true
			}
		}
	case *ssa.UnOp:
		// load of a local cell: all stores
		if al, ok := x.X.(*ssa.Alloc); ok {
			// flow-sensitive enough: stores that dominate the load win over the initial parameter store
			var doms []*ssa.Store
			var all []*ssa.Store
			for _, r := range *al.Referrers() {
				if st, ok := r.(*ssa.Store); ok && st.Addr == al {
					all = append(all, st)
					if st.Block().Dominates(x.Block()) && (st.Block() != x.Block() || instrIndex(st) < instrIndex(x)) {
						doms = append(doms, st)
					}
				}
			}
			if len(doms) > 0 {
				// the last dominating store
				best := doms[0]
				for _, st := range doms[1:] {
					if best.Block().Dominates(st.Block()) && (best.Block() != st.Block() || instrIndex(st) > instrIndex(best)) {
						best = st
					}
				}
				// later non-dominating stores may also reach; include them
				for k := range cf.ctxOrigin(best.Val, seen) {
					out[k] = true
				}
				for _, st := range all {
					if st != best && !st.Block().Dominates(best.Block()) {
						for k := range cf.ctxOrigin(st.Val, seen) {
							out[k] = true
						}
					}
				}
			} else {
				for _, st := range all {
					for k := range cf.ctxOrigin(st.Val, seen) {
						out[k] = true
					}
				}
			}
		} else if fv, ok := x.X.(*ssa.FreeVar); ok {
			_ = fv
			out["captured"] = true
		} else {
			out["other"] = true
		}
	default:
		out["other"] = true
	}
	return out
}

func runC07(w *World) *Result {
	r := NewResult("C07")
	r.Explanation = "Decides structural conditions of lexical scoping in the parser (SSA): (clone) every function that adds to or removes from a context it received works on a clone of it, so definitions cannot escape the construct; (strip) the function-definition parser removes all non-global variables from its clone before parameters are added and the body is parsed; (lookup) nodes that refer to an existing variable or function are only built on the found-branch of the context lookup, and use the looked-up definition itself (not a re-created one); (decl) every declaration is preceded by a newness test, and several names declared by one statement are also tested against each other; (place) break/continue are only built behind a query for an enclosing loop scope, return behind a query for a function scope, function definitions behind the top-level test, value-returning functions must end in a return, and each construct enters its block with its own scope constant; (public) imported definitions are only copied into the importing context when public."
	r.NotDecided = "that every use inside its scope is accepted (completeness over programs)."
	r.Rule("R-C07-clone", "context mutations happen on a clone of the received context", 3)
	r.Rule("R-C07-strip", "function bodies see globals only (non-globals removed from the clone first)", 1)
	r.Rule("R-C07-lookup", "references are built on the found-branch of the lookup and carry the looked-up definition", 3)
	r.Rule("R-C07-decl", "newness test before each declaration; names of one statement tested against each other", 4)
	r.Rule("R-C07-place", "break/continue/return/func placement queries; scope constants per construct; final return", 8)
	r.Rule("R-C07-public", "only public definitions are imported; public = first rune upper case (one predicate feeds every flag)", 3)
	cf, err := buildCtxFacts(w)
	if err != nil {
		r.Bad("R-C07-clone", "context:facts", "-", err.Error())
		return r
	}
	r.Analysed["context_mutators"] = len(cf.mutators)
	r.Analysed["context_lookups"] = len(cf.lookups)
	c07Clone(w, cf, r)
	c07Lookup(w, cf, r, "R-C07-lookup")
	c07Decl(w, cf, r)
	NewnessStrictRule(w, cf, r, "R-C07-decl")
	// the final-return check of a function body is made by the end-of-block callback: it is
	// reached on every way out of the block reader and whatever the block holds
	BlockEndCallbackRule(w, r, "R-C07-place")
	r.Rule("R-C07-wiring", "what the driver tells the converters about a variable (its name and whether it is a global) is taken from that one variable: a local is never written as a global nor a global as a local", 5)
	WiringRule(w, r, "R-C07-wiring", func(m string) bool {
		return m == "VarDefinition" || m == "VarAssignment" || m == "VarEvaluation" || m == "SliceAssignment" || m == "Copy"
	})
	c07Place(w, cf, r)
	c07HeaderOrder(w, cf, r, "R-C07-decl")
	c07Public(w, cf, r, "R-C07-public")
	c07Predicate(w, r, "R-C07-public")
	r.Rule("R-C07-frame", "locals of different functions never share an emitted name (a callee cannot see or change its caller's locals)", 2)
	for _, role := range []string{"bash", "batch"} {
		if b, err := BuildBackend(w, role); err == nil {
			FrameRule(w, b, r, "R-C07-frame")
		}
	}
	return r
}

// mutationSites: (instruction, context value mutated)
type ctxMutation struct {
	ins  ssa.Instruction
	ctx  ssa.Value
	what string
}

func (cf *ctxFacts) mutations(fn *ssa.Function) []ctxMutation {
	var out []ctxMutation
	fieldBase := func(v ssa.Value) ssa.Value {
		// ctx.variables as Field(ctxValue) or load of FieldAddr(&ctxCell)
		switch x := v.(type) {
		case *ssa.Field:
			if cf.isCtx(x.X.Type()) {
				return x.X
			}
		case *ssa.UnOp:
			if fa, ok := x.X.(*ssa.FieldAddr); ok {
				if pt, ok := fa.X.Type().Underlying().(*types.Pointer); ok && cf.isCtx(pt.Elem()) {
					// load of the whole struct at this point
					return fa.X
				}
			}
		}
		return nil
	}
	for _, b := range fn.Blocks {
		for _, ins := range b.Instrs {
			switch x := ins.(type) {
			case *ssa.Call:
				callee := x.Call.StaticCallee()
				if callee != nil && cf.mutators[callee] && len(x.Call.Args) > 0 {
					out = append(out, ctxMutation{x, x.Call.Args[0], callee.Name()})
				}
				if u, _ := cf.tableHelperUse(x); u {
					for _, a := range x.Call.Args {
						if base := cf.ctxTableBase(a); base != nil {
							out = append(out, ctxMutation{x, base, callee.Name()})
						}
					}
				}
				if callee != nil && (strings.HasPrefix(callee.String(), "maps.DeleteFunc") || strings.HasPrefix(callee.String(), "maps.Copy") || strings.HasPrefix(callee.String(), "maps.Insert")) && len(x.Call.Args) > 0 {
					if base := fieldBase(x.Call.Args[0]); base != nil {
						out = append(out, ctxMutation{x, base, callee.Name()})
					}
				}
				if bi, ok := x.Call.Value.(*ssa.Builtin); ok && (bi.Name() == "delete" || bi.Name() == "clear") {
					if base := fieldBase(x.Call.Args[0]); base != nil {
						out = append(out, ctxMutation{x, base, bi.Name()})
					}
				}
			case *ssa.MapUpdate:
				if base := fieldBase(x.Map); base != nil {
					out = append(out, ctxMutation{x, base, "map store"})
				}
			}
		}
	}
	return out
}

func c07Clone(w *World, cf *ctxFacts, r *Result, rules ...string) {
	ruleOverride := ""
	if len(rules) > 0 {
		ruleOverride = rules[0]
	}
	rule := "R-C07-clone"
	if ruleOverride != "" {
		rule = ruleOverride
	}
	// functions allowed to populate the received context, with the reason
	exceptions := map[string]string{}
	for _, fn := range w.Funcs("parser") {
		if fn.Signature.Recv() != nil && types.Identical(fn.Signature.Recv().Type(), cf.ctxType) {
			continue // the context's own methods
		}
		var ctxParams []*ssa.Parameter
		for _, p := range fn.Params {
			if cf.isCtx(p.Type()) {
				ctxParams = append(ctxParams, p)
			}
		}
		muts := cf.mutations(fn)
		if len(muts) == 0 {
			continue
		}
		n := 0
		for _, m := range muts {
			n++
			key := fmt.Sprintf("clone:%s:%s#%d", FuncName(fn), m.what, n)
			var origins map[string]bool
			if al, ok := m.ctx.(*ssa.Alloc); ok {
				// address of a local context cell (spilled): judge by the stores reaching the mutation
				fake := &ssa.UnOp{}
				_ = fake
				origins = map[string]bool{}
				var doms []*ssa.Store
				for _, rr := range *al.Referrers() {
					if st, ok := rr.(*ssa.Store); ok && st.Addr == al && st.Block().Dominates(m.ins.Block()) && (st.Block() != m.ins.Block() || instrIndex(st) < instrIndex(m.ins)) {
						doms = append(doms, st)
					}
				}
				if len(doms) > 0 {
					best := doms[0]
					for _, st := range doms[1:] {
						if best.Block().Dominates(st.Block()) && (best.Block() != st.Block() || instrIndex(st) > instrIndex(best)) {
							best = st
						}
					}
					origins = cf.ctxOrigin(best.Val, map[ssa.Value]bool{})
				} else {
					origins["param"] = true
				}
			} else {
				origins = cf.ctxOrigin(m.ctx, map[ssa.Value]bool{})
			}
			pos := w.Pos(m.ins.Pos())
			switch {
			case origins["param"] || origins["captured"] && len(ctxParams) > 0:
				// the import collector populates the importing file's context by design: its caller hands in a fresh context
				if freshAtAllCallers(w, cf, fn) {
					r.Triv(rule, key, pos, "populates the context it receives; every caller passes a freshly created context (program root)")
					continue
				}
				if reason, ok := exceptions[FuncName(fn)]; ok {
					r.Triv(rule, key, pos, reason)
					continue
				}
				// a helper of a block reader: every caller hands it the clone it works on itself
				if cloneAtAllCallers(w, cf, fn) {
					r.Ok(rule, key, pos, m.what+" in a helper that every caller hands a clone / freshly created context")
					continue
				}
				r.Bad(rule, key, pos, fmt.Sprintf("%s changes (%s) the context it received instead of a clone: definitions made inside the construct leak into the enclosing scope", FuncName(fn), m.what))
			case origins["clone"] || origins["fresh"]:
				r.Ok(rule, key, pos, m.what+" on a clone / freshly created context")
			default:
				r.Bad(rule, key, pos, fmt.Sprintf("cannot show that %s in %s works on a clone of the received context", m.what, FuncName(fn)))
			}
		}
	}
	// strip: function-definition parser
	c07Strip(w, cf, r)
}

// freshAtAllCallers: every call of fn passes a context created by the fresh-context constructor.
// cloneAtAllCallers: every call of fn passes a context that is, at that point, a clone or a
// freshly created context (never the context the caller itself received).
func cloneAtAllCallers(w *World, cf *ctxFacts, fn *ssa.Function) bool {
	n := 0
	for _, caller := range w.Funcs("parser") {
		for _, b := range caller.Blocks {
			for _, ins := range b.Instrs {
				c, ok := ins.(*ssa.Call)
				if !ok || c.Call.StaticCallee() != fn {
					continue
				}
				n++
				for i, p := range fn.Params {
					if cf.isCtx(p.Type()) && i < len(c.Call.Args) {
						o := cf.ctxOrigin(c.Call.Args[i], map[ssa.Value]bool{})
						if !(o["clone"] || o["fresh"]) || o["param"] || o["other"] || o["captured"] {
							return false
						}
					}
				}
			}
		}
	}
	return n > 0
}

func freshAtAllCallers(w *World, cf *ctxFacts, fn *ssa.Function) bool {
	return freshAtAllCallersRec(w, cf, fn, map[*ssa.Function]bool{})
}

// a caller that hands on the context it received itself is judged by its own callers
func freshAtAllCallersRec(w *World, cf *ctxFacts, fn *ssa.Function, asking map[*ssa.Function]bool) bool {
	if asking[fn] || len(asking) > 4 {
		return false
	}
	asking[fn] = true
	defer delete(asking, fn)
	n := 0
	for _, caller := range w.Funcs("parser") {
		for _, b := range caller.Blocks {
			for _, ins := range b.Instrs {
				c, ok := ins.(*ssa.Call)
				if !ok || c.Call.StaticCallee() != fn {
					continue
				}
				n++
				for i, p := range fn.Params {
					if cf.isCtx(p.Type()) && i < len(c.Call.Args) {
						o := cf.ctxOrigin(c.Call.Args[i], map[ssa.Value]bool{})
						if o["other"] || o["captured"] || o["clone"] {
							return false
						}
						if o["param"] {
							if !freshAtAllCallersRec(w, cf, caller, asking) {
								return false
							}
						} else if !o["fresh"] {
							return false
						}
					}
				}
			}
		}
	}
	return n > 0
}

func c07Strip(w *World, cf *ctxFacts, r *Result) {
	rule := "R-C07-strip"
	found := false
	for _, fn := range w.Funcs("parser") {
		if !constructsNode(fn, "FunctionDefinition") {
			continue
		}
		found = true
		var strip *ssa.Call
		var stripAt ssa.Instruction
		var firstAdd, bodyCall ssa.Instruction
		for _, b := range fn.Blocks {
			for _, ins := range b.Instrs {
				c, ok := ins.(*ssa.Call)
				if !ok {
					continue
				}
				callee := c.Call.StaticCallee()
				if callee == nil {
					continue
				}
				if strings.HasPrefix(callee.String(), "maps.DeleteFunc") && strip == nil {
					strip = c
					stripAt = c
				}
				// the removal made by a method of the context that hands back a changed clone
				if cf.cloneLike[callee] && strip == nil {
					for _, cb := range callee.Blocks {
						for _, ci := range cb.Instrs {
							if cc, ok := ci.(*ssa.Call); ok && strip == nil {
								if cal := cc.Call.StaticCallee(); cal != nil && strings.HasPrefix(cal.String(), "maps.DeleteFunc") {
									strip = cc
									stripAt = c
								}
							}
						}
					}
				}
				if cf.mutators[callee] && firstAdd == nil {
					firstAdd = c
				}
				// the block parser: takes a scope constant
				for _, a := range c.Call.Args {
					if k, ok := a.(*ssa.Const); ok && k.Value != nil && isNamed(k.Type(), "scope") && bodyCall == nil {
						bodyCall = c
					}
				}
			}
		}
		pos := w.Pos(fn.Pos())
		if strip == nil {
			r.Bad(rule, "strip:"+FuncName(fn), pos, "the function-definition parser does not remove the non-global variables from its context: a function body would see the locals of the place where it is defined")
			continue
		}
		// predicate: closure returns !v.Global()
		predOK := false
		if len(strip.Call.Args) == 2 {
			var cl *ssa.Function
			switch f := strip.Call.Args[1].(type) {
			case *ssa.MakeClosure:
				cl = f.Fn.(*ssa.Function)
			case *ssa.Function:
				cl = f
			}
			if cl != nil && len(cl.Blocks) == 1 {
				if ret, ok := cl.Blocks[0].Instrs[len(cl.Blocks[0].Instrs)-1].(*ssa.Return); ok && len(ret.Results) == 1 {
					if u, ok := ret.Results[0].(*ssa.UnOp); ok && u.Op == token.NOT {
						if c, ok := u.X.(*ssa.Call); ok {
							if callee := c.Call.StaticCallee(); callee != nil && callee.Name() == "Global" {
								predOK = true
							}
						}
					}
				}
			}
		}
		order := true
		before := func(a, b ssa.Instruction) bool {
			if a == nil || b == nil {
				return true
			}
			return a.Block().Dominates(b.Block()) && (a.Block() != b.Block() || instrIndex(a) < instrIndex(b))
		}
		if !before(stripAt, firstAdd) || !before(stripAt, bodyCall) {
			order = false
		}
		switch {
		case !predOK:
			r.Bad(rule, "strip:"+FuncName(fn)+":predicate", w.Pos(strip.Pos()), "the filter applied to the function's context is not 'remove every variable that is not global'")
		case !order:
			r.Bad(rule, "strip:"+FuncName(fn)+":order", w.Pos(strip.Pos()), "non-global variables are removed only after parameters were added or the body was parsed")
		default:
			r.Ok(rule, "strip:"+FuncName(fn), w.Pos(strip.Pos()), "non-globals removed from the clone before parameters are added and the body is parsed")
		}
	}
	if !found {
		r.Bad(rule, "strip:function-definition-parser", "-", "no function constructs FunctionDefinition")
	}
}

func constructsNode(fn *ssa.Function, node string) bool {
	for _, b := range fn.Blocks {
		for _, ins := range b.Instrs {
			if mi, ok := ins.(*ssa.MakeInterface); ok && namedName(mi.X.Type()) == node {
				return true
			}
			if al, ok := ins.(*ssa.Alloc); ok && strings.Contains(al.Comment, "complit") {
				if namedName(al.Type().Underlying().(*types.Pointer).Elem()) == node {
					return true
				}
			}
		}
	}
	return false
}

// ---- lookups ----------------------------------------------------------------------------

// lookupUses: for every call of a context lookup, the definition (#0) and the found flag (#1).
func c07Lookup(w *World, cf *ctxFacts, r *Result, rule string) {
	n := 0
	for _, fn := range w.Funcs("parser") {
		perFn := 0
		for _, b := range fn.Blocks {
			for _, ins := range b.Instrs {
				c, ok := ins.(*ssa.Call)
				if !ok {
					continue
				}
				callee := c.Call.StaticCallee()
				if callee == nil || !cf.lookups[callee] {
					continue
				}
				var def, found ssa.Value
				for _, ref := range *c.Referrers() {
					if ex, ok := ref.(*ssa.Extract); ok {
						if ex.Index == 0 {
							def = ex
						} else {
							found = ex
						}
					}
				}
				if def == nil || def.Referrers() == nil || len(*def.Referrers()) == 0 {
					continue // pure existence test
				}
				if _, isStruct := def.Type().Underlying().(*types.Struct); !isStruct {
					continue // not a definition (the alias table maps to a plain string; its existence test is the error exit of the name builder)
				}
				// does the definition flow into a tree node / constructor?
				uses := nodeUsesOf(def, map[ssa.Value]bool{}, 0)
				if len(uses) == 0 {
					continue
				}
				n++
				perFn++
				key := fmt.Sprintf("lookup:%s:%s#%d", FuncName(fn), callee.Name(), perFn)
				if found == nil {
					r.Bad(rule, key, w.Pos(c.Pos()), "the looked-up definition is used without testing whether it was found")
					continue
				}
				// cut the found==true edges; no use may be reachable from the lookup otherwise
				cut := map[[2]*ssa.BasicBlock]bool{}
				for _, blk := range fn.Blocks {
					cnd, neg := condOf(blk)
					if cnd == found {
						idx := 0
						if neg {
							idx = 1
						}
						cut[[2]*ssa.BasicBlock{blk, blk.Succs[idx]}] = true
					}
					// found folded into && / || : phi of the flag
					if ph, ok := cnd.(*ssa.Phi); ok {
						for _, e := range ph.Edges {
							if e == found {
								idx := 0
								if neg {
									idx = 1
								}
								cut[[2]*ssa.BasicBlock{blk, blk.Succs[idx]}] = true
							}
						}
					}
				}
				bad := false
				for _, u := range uses {
					if u.Block() == c.Block() || reachableFromWithout(c.Block(), cut, u.Block()) {
						bad = true
						r.Bad(rule, key, w.Pos(u.Pos()), "a node is built from the result of "+callee.Name()+" on a path where the name was not found (undefined / private names would be accepted)")
						break
					}
				}
				if !bad {
					r.Ok(rule, key, w.Pos(c.Pos()), fmt.Sprintf("%d use(s) of the definition lie on the found-branch of %s", len(uses), callee.Name()))
				}
			}
		}
	}
	if n == 0 {
		r.Bad(rule, "lookup:none", "-", "no context lookup feeds a tree node")
	}
}

// nodeUsesOf: instructions that store v (or a value built from it) into a node literal or pass it on.
func nodeUsesOf(v ssa.Value, seen map[ssa.Value]bool, depth int) []ssa.Instruction {
	if seen[v] || depth > 4 || v.Referrers() == nil {
		return nil
	}
	seen[v] = true
	var out []ssa.Instruction
	for _, ref := range *v.Referrers() {
		switch x := ref.(type) {
		case *ssa.Store:
			if x.Val != v {
				continue
			}
			if al, ok := x.Addr.(*ssa.Alloc); ok && !strings.Contains(al.Comment, "complit") {
				// spilled local variable: follow its loads and field reads
				for _, r2 := range *al.Referrers() {
					switch y := r2.(type) {
					case *ssa.UnOp:
						out = append(out, nodeUsesOf(y, seen, depth+1)...)
					case *ssa.FieldAddr:
						for _, r3 := range *y.Referrers() {
							if u, ok := r3.(*ssa.UnOp); ok {
								out = append(out, nodeUsesOf(u, seen, depth+1)...)
							}
						}
					}
				}
				continue
			}
			out = append(out, x)
		case *ssa.Call:
			callee := x.Call.StaticCallee()
			if callee != nil && (callee.Name() == "ValueType" || callee.Name() == "Name" || callee.Name() == "Global" || callee.Name() == "Public") {
				continue // reading a property of the (zero) definition is harmless
			}
			for _, a := range x.Call.Args {
				if a == v {
					out = append(out, x)
				}
			}
		case *ssa.Field:
			// definedFunction.params / returnTypes flow into the call node
			out = append(out, nodeUsesOf(x, seen, depth+1)...)
		case *ssa.Phi, *ssa.MakeInterface:
			out = append(out, nodeUsesOf(x.(ssa.Value), seen, depth+1)...)
		}
	}
	return out
}

// ---- declarations ------------------------------------------------------------------------

func c07Decl(w *World, cf *ctxFacts, r *Result) {
	rule := "R-C07-decl"
	// helpers that build the variables of a definition for their caller are judged together
	// with the caller: its newness tests precede the call
	type declFacts struct {
		decls   []*ssa.Call
		newness int
		blocks  []*ssa.BasicBlock
	}
	facts := func(fn *ssa.Function) declFacts {
		var df declFacts
		for _, f := range helperClosure(w, fn, 2) {
			if f != fn && returnsNode(f) {
				continue
			}
			helperBuilds := f == fn || returnsVariables(f)
			df.blocks = append(df.blocks, f.Blocks...)
			for _, b := range f.Blocks {
				for _, ins := range b.Instrs {
					c, ok := ins.(*ssa.Call)
					if !ok {
						continue
					}
					callee := c.Call.StaticCallee()
					if callee == nil {
						continue
					}
					// declaration calls: NewVariable(name, …) with a name that is not a constant
					if helperBuilds && isDefinitionCtor(callee, "Variable") && len(c.Call.Args) >= 1 {
						df.decls = append(df.decls, c)
					}
					// newness tests: lookups (or helper wrapping a lookup) whose found-branch is an error exit
					if wrapsLookup(cf, callee) {
						df.newness++
					}
					if cf.lookups[callee] {
						// found == true must lead to an error exit
						for _, ref := range *c.Referrers() {
							ex, ok := ref.(*ssa.Extract)
							if !ok || ex.Index != 1 {
								continue
							}
							for _, blk := range f.Blocks {
								cnd, neg := condOf(blk)
								if cnd != ex {
									continue
								}
								idx := 0
								if neg {
									idx = 1
								}
								if leadsToErrorReturn(blk.Succs[idx], 0) {
									df.newness++
								}
							}
						}
					}
				}
			}
		}
		return df
	}
	for _, fn := range w.Funcs("parser") {
		df := facts(fn)
		decls, newness := df.decls, df.newness
		declaresFunc := constructsNode(fn, "FunctionDefinition")
		if len(decls) == 0 && !declaresFunc {
			continue
		}
		if newness == 0 && !returnsNode(fn) && returnsVariables(fn) && !addsToContext(cf, fn) {
			// judged with its callers when each of them tests newness
			callers, all := 0, true
			for _, caller := range w.Funcs("parser") {
				calls := false
				for _, b := range caller.Blocks {
					for _, ins := range b.Instrs {
						if c, ok := ins.(*ssa.Call); ok && c.Call.StaticCallee() == fn {
							calls = true
						}
					}
				}
				if calls {
					callers++
					if facts(caller).newness == 0 {
						all = false
					}
				}
			}
			if callers > 0 && all {
				continue
			}
		}
		loops := map[*ssa.BasicBlock]*ssa.BasicBlock{}
		for _, f := range helperClosure(w, fn, 2) {
			if f != fn && returnsNode(f) {
				continue
			}
			for k, v := range naturalLoops(f) {
				loops[k] = v
			}
		}
		allBlocks := df.blocks
		// is a declaration a pure reference (existing variable rebuilt)? those are judged by R-C02-ident
		userDecls := 0
		inLoop := false
		var loopHdr *ssa.BasicBlock
		for _, d := range decls {
			if _, isConst := d.Call.Args[0].(*ssa.Const); isConst {
				continue
			}
			userDecls++
			if h := loops[d.Block()]; h != nil {
				inLoop = true
				loopHdr = h
			}
		}
		if userDecls == 0 && !declaresFunc {
			continue
		}
		pos := w.Pos(fn.Pos())
		key := "decl:" + FuncName(fn)
		if newness == 0 {
			// assignment re-creating existing variables is not a declaration site (see C02)
			if !addsToContext(cf, fn) && !declaresFunc && !returnsVariables(fn) {
				continue
			}
			r.Bad(rule, key+":newness", pos, "names are declared without testing that they are new in the visible scope")
			continue
		}
		r.Ok(rule, key+":newness", pos, fmt.Sprintf("%d newness test(s) precede the declaration(s)", newness))
		// several names in one statement
		multi := inLoop || userDecls > 1
		if !multi {
			continue
		}
		selfChecked := false
		// (a) the context consulted by the newness test is extended inside the same loop
		isTokenName := func(v ssa.Value) bool {
			var chk func(v ssa.Value, d int) bool
			chk = func(v ssa.Value, d int) bool {
				if d > 3 {
					return false
				}
				switch x := v.(type) {
				case *ssa.Call:
					if callee := x.Call.StaticCallee(); callee != nil && callee.Name() == "Value" && pkgOf(callee) == w.Pkgs["lexer"].Types {
						return true
					}
				case *ssa.Phi:
					for _, e := range x.Edges {
						if chk(e, d+1) {
							return true
						}
					}
				}
				return false
			}
			return chk(v, 0)
		}
		_ = loopHdr
		if inLoop {
			// membership test of the new name in the names/definitions collected so far (loop-carried list), anywhere in the function
			for _, b := range allBlocks {
				for _, ins := range b.Instrs {
					// the set form: seen[name] consulted and seen[name] = true in a loop over the names
					if lk, ok := ins.(*ssa.Lookup); ok && loops[b] != nil && isTokenName(lk.Index) {
						if _, isMap := lk.X.Type().Underlying().(*types.Map); isMap && lk.X.Referrers() != nil {
							for _, ref := range *lk.X.Referrers() {
								if mu, ok := ref.(*ssa.MapUpdate); ok && mu.Map == lk.X && sameNameValue(mu.Key, lk.Index) && loops[mu.Block()] == loops[b] {
									selfChecked = true
								}
							}
						}
					}
					c, ok := ins.(*ssa.Call)
					if !ok {
						continue
					}
					callee := c.Call.StaticCallee()
					if callee != nil && cf.mutators[callee] && loops[b] != nil {
						selfChecked = true // the context consulted by the newness test grows inside the loop
					}
					if callee != nil && strings.HasPrefix(callee.String(), "slices.Contains") && len(c.Call.Args) == 2 {
						if _, isPhi := c.Call.Args[0].(*ssa.Phi); isPhi && loops[b] != nil {
							// what is looked for is a name (or a function that compares names): a whole
							// definition compared with the collected definitions differs as soon as the
							// types differ (a int, a string)
							_, byFunc := c.Call.Args[1].Type().Underlying().(*types.Signature)
							if isString(c.Call.Args[1].Type()) || byFunc {
								selfChecked = true
							}
						}
					}
				}
			}
		} else {
			// two names outside a loop (range index/value): compared with each other
			for _, b := range allBlocks {
				for _, ins := range b.Instrs {
					if bo, ok := ins.(*ssa.BinOp); ok && (bo.Op == token.EQL || bo.Op == token.NEQ) && isString(bo.X.Type()) {
						if isTokenName(bo.X) && isTokenName(bo.Y) {
							selfChecked = true
						}
					}
				}
			}
		}
		if selfChecked {
			r.Ok(rule, key+":list", pos, "names declared by one statement are tested against each other")
		} else {
			r.Bad(rule, key+":list", pos, "several names are declared by one statement, each tested against the enclosing scope only: the same name twice in the list (x, x := …; func f(a int, a int); for i, i := range …) is accepted")
		}
	}
}

func sameNameValue(a, b ssa.Value) bool {
	if a == b {
		return true
	}
	// Value() of the same token
	ca, ok1 := a.(*ssa.Call)
	cb, ok2 := b.(*ssa.Call)
	if ok1 && ok2 && ca.Call.StaticCallee() != nil && ca.Call.StaticCallee() == cb.Call.StaticCallee() && len(ca.Call.Args) == 1 && len(cb.Call.Args) == 1 {
		return ca.Call.Args[0] == cb.Call.Args[0]
	}
	return false
}

func wrapsLookup(cf *ctxFacts, fn *ssa.Function) bool {
	if fn.Blocks == nil || !isErrorType(lastResult(fn)) {
		return false
	}
	for _, b := range fn.Blocks {
		for _, ins := range b.Instrs {
			if c, ok := ins.(*ssa.Call); ok {
				if callee := c.Call.StaticCallee(); callee != nil && cf.lookups[callee] {
					return true
				}
			}
		}
	}
	return false
}

func lastResult(fn *ssa.Function) types.Type {
	res := fn.Signature.Results()
	if res.Len() == 0 {
		return types.Typ[types.Invalid]
	}
	return res.At(res.Len() - 1).Type()
}

func addsToContext(cf *ctxFacts, fn *ssa.Function) bool {
	for _, b := range fn.Blocks {
		for _, ins := range b.Instrs {
			if c, ok := ins.(*ssa.Call); ok {
				if callee := c.Call.StaticCallee(); callee != nil && cf.mutators[callee] {
					return true
				}
			}
		}
	}
	return false
}

func returnsVariables(fn *ssa.Function) bool {
	res := fn.Signature.Results()
	for i := 0; i < res.Len(); i++ {
		if sl, ok := res.At(i).Type().Underlying().(*types.Slice); ok && isNamed(sl.Elem(), "Variable") {
			return true
		}
	}
	return false
}

// ---- placement -----------------------------------------------------------------------------

func scopeConstsIn(fn *ssa.Function) []string {
	var out []string
	for _, b := range fn.Blocks {
		for _, ins := range b.Instrs {
			var ops []*ssa.Value
			ops = ins.Operands(ops)
			for _, o := range ops {
				if c, ok := (*o).(*ssa.Const); ok && c.Value != nil && c.Value.Kind() == constant.String && isNamed(c.Type(), "scope") {
					out = append(out, constant.StringVal(c.Value))
				}
				// a package-level list of scopes (var loopScopes = []scope{…}) read here
				if g, ok := (*o).(*ssa.Global); ok {
					out = append(out, globalScopeList(g)...)
				}
			}
		}
	}
	return uniq(out)
}

// globalScopeList: the scope constants a package-level variable is initialised with (a list
// literal), provided nothing but the initialiser writes the variable.
func globalScopeList(g *ssa.Global) []string {
	pt, ok := g.Type().Underlying().(*types.Pointer)
	if !ok {
		return nil
	}
	sl, ok := pt.Elem().Underlying().(*types.Slice)
	if !ok || !isNamed(sl.Elem(), "scope") || g.Pkg == nil {
		return nil
	}
	init := g.Pkg.Func("init")
	if init == nil {
		return nil
	}
	for _, m := range g.Pkg.Members {
		fn, ok := m.(*ssa.Function)
		if !ok || fn == init {
			continue
		}
		for _, b := range fn.Blocks {
			for _, ins := range b.Instrs {
				if st, ok := ins.(*ssa.Store); ok && st.Addr == ssa.Value(g) {
					return nil // assigned at run time
				}
			}
		}
	}
	var out []string
	for _, b := range init.Blocks {
		for _, ins := range b.Instrs {
			st, ok := ins.(*ssa.Store)
			if !ok || st.Addr != ssa.Value(g) {
				continue
			}
			slc, ok := st.Val.(*ssa.Slice)
			if !ok {
				return nil
			}
			al, ok := slc.X.(*ssa.Alloc)
			if !ok {
				return nil
			}
			for _, ref := range *al.Referrers() {
				ia, ok := ref.(*ssa.IndexAddr)
				if !ok {
					continue
				}
				for _, r2 := range *ia.Referrers() {
					if s2, ok := r2.(*ssa.Store); ok && s2.Addr == ssa.Value(ia) {
						c, ok := s2.Val.(*ssa.Const)
						if !ok || c.Value == nil || c.Value.Kind() != constant.String {
							return nil
						}
						out = append(out, constant.StringVal(c.Value))
					}
				}
			}
		}
	}
	return out
}

func c07Place(w *World, cf *ctxFacts, r *Result) {
	rule := "R-C07-place"
	want := map[string][]string{"Break": {"for"}, "Continue": {"for"}, "Return": {"function"}}
	for _, node := range []string{"Break", "Continue", "Return"} {
		found := false
		for _, fn := range w.Funcs("parser") {
			if !constructsNode(fn, node) || fn.Parent() != nil {
				continue
			}
			found = true
			pos := w.Pos(fn.Pos())
			key := "place:" + node
			// the finished node may be handed to a function that decides whether it may stand here
			// and gives it back (evaluateLoopControl(ctx, "break", Break{})): that function is judged,
			// with "the node is built" read as "the parameter is returned"
			judged := fn
			delegIdx := -1
			for _, b := range fn.Blocks {
				for _, ins := range b.Instrs {
					mi, ok := ins.(*ssa.MakeInterface)
					if !ok || namedName(mi.X.Type()) != node || mi.Referrers() == nil {
						continue
					}
					for _, ref := range *mi.Referrers() {
						c, ok := ref.(*ssa.Call)
						if !ok {
							continue
						}
						h := c.Call.StaticCallee()
						if h == nil || h.Blocks == nil || !w.IsProduct(pkgOf(h)) {
							continue
						}
						for i, a := range c.Call.Args {
							if a == ssa.Value(mi) && i < len(h.Params) {
								judged, delegIdx = h, i
							}
						}
					}
				}
			}
			fnOrig := fn
			fn := judged
			_ = fnOrig
			// a scope query with an error exit must dominate the construction; the query may sit
			// in an extracted helper (bool or error result) or be handed over as a bound method
			closure := helperClosure(w, fn, 3)
			queried := false
			asking := map[*ssa.Function]bool{} // members of the closure through which the query is reached
			for q := range cf.scopeQ {
				asking[q] = true
			}
			for changed := true; changed; {
				changed = false
				for _, h := range closure {
					if asking[h] {
						continue
					}
					for _, b := range h.Blocks {
						for _, ins := range b.Instrs {
							for _, t := range staticTargets(w, ins) {
								if asking[t] && !asking[h] {
									asking[h] = true
									changed = true
								}
							}
						}
					}
				}
			}
			queried = asking[fn]
			var scopes []string
			for _, h := range closure {
				if h == fn || asking[h] {
					scopes = append(scopes, scopeConstsIn(h)...)
				}
			}
			// queries that stand for one kind of scope (inLoop(), inFunction())
			for _, h := range closure {
				for _, b := range h.Blocks {
					for _, ins := range b.Instrs {
						for _, t := range staticTargets(w, ins) {
							if k, ok := cf.scopeQK[t]; ok {
								scopes = append(scopes, k)
							}
						}
					}
				}
			}
			if fnOrig != fn {
				scopes = append(scopes, scopeConstsIn(fnOrig)...) // the admitted scopes may be handed over with the node
			}
			scopes = uniq(scopes)
			delete(asking, fn)
			switch {
			case !queried:
				r.Bad(rule, key, pos, node+" is built without asking the scope stack for an enclosing construct")
			case fmt.Sprint(scopes) != fmt.Sprint(want[node]):
				r.Bad(rule, key, pos, fmt.Sprintf("%s is admitted inside the scopes %v; required is an enclosing %v (a %s outside of it must be rejected)", strings.ToLower(node), scopes, want[node], strings.ToLower(node)))
			case delegIdx < 0 && !errorGuardBeforeConstruct(w, fn, node, asking):
				r.Bad(rule, key, pos, "the scope query does not lead to an error exit before "+node+" is built")
			case delegIdx >= 0 && !errorGuardBeforeParamReturn(w, fn, fn.Params[delegIdx], asking):
				r.Bad(rule, key, pos, "the scope query of "+FuncName(fn)+" does not lead to an error exit before the "+node+" it was handed is returned")
			default:
				r.Ok(rule, key, pos, fmt.Sprintf("%s only inside %v", strings.ToLower(node), scopes))
			}
		}
		if !found {
			r.Bad(rule, "place:"+node+":constructor", "-", "no parser function constructs "+node)
		}
	}
	// function definitions only at top level
	for _, fn := range w.Funcs("parser") {
		if !constructsNode(fn, "FunctionDefinition") || fn.Parent() != nil {
			continue
		}
		ok := false
		for _, b := range fn.Blocks {
			c, neg := condOf(b)
			call, isCall := c.(*ssa.Call)
			if !isCall || call.Call.StaticCallee() != cf.globalQ || cf.globalQ == nil {
				continue
			}
			fail := b.Succs[1]
			if neg {
				fail = b.Succs[0]
			}
			if leadsToErrorReturn(fail, 0) {
				ok = true
			}
		}
		if ok {
			r.Ok(rule, "place:FunctionDefinition", w.Pos(fn.Pos()), "function definitions are rejected unless the current scope is the program scope")
		} else {
			r.Bad(rule, "place:FunctionDefinition", w.Pos(fn.Pos()), "function definitions are not restricted to the top level")
		}
		// final return of value-returning functions: the block callback tests the last statement's tag against RETURN
		tagOf, _ := TagMap(w)
		retTag := tagOf["Return"]
		has := false
		for _, a := range blockCallbacksOf(fn) {
			for _, b := range a.Blocks {
				for _, ins := range b.Instrs {
					if bo, ok := ins.(*ssa.BinOp); ok && (bo.Op == token.NEQ || bo.Op == token.EQL) {
						for _, side := range []ssa.Value{bo.X, bo.Y} {
							if k, ok := side.(*ssa.Const); ok && k.Value != nil && k.Value.Kind() == constant.String && constant.StringVal(k.Value) == retTag && isNamed(k.Type(), "StatementType") {
								has = true
							}
						}
					}
				}
			}
		}
		if has {
			// and no path of the callback reports success for the finished body of a
			// value-returning function without having passed that test
			if why := finalReturnEscapes(fn, retTag); why != "" {
				r.Bad(rule, "place:final-return", w.Pos(fn.Pos()), why)
			} else {
				r.Ok(rule, "place:final-return", w.Pos(fn.Pos()), "a value-returning function must end in a return statement: every success path of the block callback for the finished body of a function with results passes the test of the last statement's tag")
			}
		} else {
			r.Bad(rule, "place:final-return", w.Pos(fn.Pos()), "nothing tests that a value-returning function ends in a return: it could fall off its end")
		}
	}
	// each construct enters its block with its own scope constant
	wantScope := map[string]string{"For": "for", "If": "if", "FunctionDefinition": "function", "Program": "program"}
	var nodes []string
	for n := range wantScope {
		nodes = append(nodes, n)
	}
	sort.Strings(nodes)
	for _, node := range nodes {
		for _, fn := range w.Funcs("parser") {
			if fn.Parent() != nil || !constructsNode(fn, node) {
				continue
			}
			scopes := scopeConstsIn(fn)
			if len(scopes) == 0 {
				continue // does not enter a block itself (e.g. clean-up)
			}
			key := "place:scope-constant:" + FuncName(fn)
			// switch builds an If node but enters its blocks as "switch"
			okSet := map[string]bool{wantScope[node]: true}
			if node == "If" {
				okSet["switch"] = true
			}
			bad := false
			for _, s := range scopes {
				if !okSet[s] && !(node == "FunctionDefinition" && s == "function") {
					bad = true
				}
			}
			if bad {
				r.Bad(rule, key, w.Pos(fn.Pos()), fmt.Sprintf("%s enters its block with scope %v, expected %q: placement rules of break/continue/return would misjudge statements inside", FuncName(fn), scopes, wantScope[node]))
			} else {
				r.Ok(rule, key, w.Pos(fn.Pos()), fmt.Sprintf("block entered with scope %v", scopes))
			}
		}
	}
}

// errorGuardBeforeConstruct: some If with an error exit dominates the node's construction.
// errorGuardBeforeConstruct: a two-way branch that dominates the construction of the node has
// an error exit on one side, and its condition is computed from the result of a call that
// reaches the scope query (directly, through a helper returning bool / error, or through a
// bound method handed to a library search).
func errorGuardBeforeConstruct(w *World, fn *ssa.Function, node string, asking map[*ssa.Function]bool) bool {
	for _, b := range fn.Blocks {
		for _, ins := range b.Instrs {
			mi, ok := ins.(*ssa.MakeInterface)
			if !ok || namedName(mi.X.Type()) != node {
				continue
			}
			for d := b.Idom(); d != nil; d = d.Idom() {
				if len(d.Succs) != 2 || !(leadsToErrorReturn(d.Succs[0], 0) || leadsToErrorReturn(d.Succs[1], 0)) {
					continue
				}
				ifi, ok := d.Instrs[len(d.Instrs)-1].(*ssa.If)
				if !ok {
					continue
				}
				if dependsOnCallInto(w, ifi.Cond, asking, map[ssa.Value]bool{}) || dependsOnScopeLoop(w, fn, ifi.Cond, asking) {
					return true
				}
			}
		}
	}
	return false
}

// errorGuardBeforeParamReturn: as errorGuardBeforeConstruct, for a function that returns the
// node it received as parameter p: every return of p is dominated by a guard on the scope query.
func errorGuardBeforeParamReturn(w *World, fn *ssa.Function, p *ssa.Parameter, asking map[*ssa.Function]bool) bool {
	n := 0
	for _, b := range fn.Blocks {
		if len(b.Instrs) == 0 {
			continue
		}
		ret, ok := b.Instrs[len(b.Instrs)-1].(*ssa.Return)
		if !ok || len(ret.Results) == 0 || ret.Results[0] != ssa.Value(p) {
			continue
		}
		n++
		guarded := false
		for d := b.Idom(); d != nil; d = d.Idom() {
			if len(d.Succs) != 2 || !(leadsToErrorReturn(d.Succs[0], 0) || leadsToErrorReturn(d.Succs[1], 0)) {
				continue
			}
			ifi, ok := d.Instrs[len(d.Instrs)-1].(*ssa.If)
			if !ok {
				continue
			}
			if dependsOnCallInto(w, ifi.Cond, asking, map[ssa.Value]bool{}) || dependsOnScopeLoop(w, fn, ifi.Cond, asking) {
				guarded = true
			}
		}
		if !guarded {
			return false
		}
	}
	return n > 0
}

// dependsOnScopeLoop: the flag idiom — a bool variable set inside a loop whose own branch
// asks the scope query (scopeOk := false; for … { if ctx.findScope(s) { scopeOk = true } }).
func dependsOnScopeLoop(w *World, fn *ssa.Function, cond ssa.Value, asking map[*ssa.Function]bool) bool {
	var phis []*ssa.Phi
	var walk func(v ssa.Value, d int)
	seen := map[ssa.Value]bool{}
	walk = func(v ssa.Value, d int) {
		if v == nil || seen[v] || d > 6 {
			return
		}
		seen[v] = true
		switch x := v.(type) {
		case *ssa.Phi:
			phis = append(phis, x)
			for _, e := range x.Edges {
				walk(e, d+1)
			}
		case *ssa.UnOp:
			walk(x.X, d+1)
		case *ssa.BinOp:
			walk(x.X, d+1)
			walk(x.Y, d+1)
		}
	}
	walk(cond, 0)
	for _, ph := range phis {
		for i, e := range ph.Edges {
			if _, isConst := e.(*ssa.Const); !isConst {
				continue
			}
			// the edge's predecessor is reached under a branch that asks the query
			for d := ph.Block().Preds[i]; d != nil; d = d.Idom() {
				if len(d.Instrs) == 0 {
					continue
				}
				if ifi, ok := d.Instrs[len(d.Instrs)-1].(*ssa.If); ok && dependsOnCallInto(w, ifi.Cond, asking, map[ssa.Value]bool{}) {
					return true
				}
			}
		}
	}
	return false
}

// ---- public ---------------------------------------------------------------------------------

func c07Public(w *World, cf *ctxFacts, r *Result, rule string) {
	n := 0
	for _, fn := range w.Funcs("parser") {
		if recv := fn.Signature.Recv(); recv != nil && types.Identical(recv.Type(), cf.ctxType) {
			continue
		}
		for _, m := range cf.mutations(fn) {
			var mu ssa.Instruction
			mu, ok := m.ins.(*ssa.MapUpdate)
			if !ok {
				// a helper that is handed the table and stores into it: the store is judged where it is made
				// (once per helper: the same instruction is met for every table it is handed)
				hc, isCall := m.ins.(*ssa.Call)
				if !isCall {
					continue
				}
				if u, _ := cf.tableHelperUse(hc); !u {
					continue
				}
				h := hc.Call.StaticCallee()
				var inner []ssa.Instruction
				for i, a := range hc.Call.Args {
					if cf.ctxTableBase(a) == nil || i >= len(h.Params) || h.Params[i].Referrers() == nil {
						continue
					}
					for _, rr := range *h.Params[i].Referrers() {
						if y, ok := rr.(*ssa.MapUpdate); ok && y.Map == ssa.Value(h.Params[i]) {
							inner = append(inner, y)
						}
					}
				}
				if len(inner) != 1 {
					continue
				}
				mu = inner[0]
			}
			// direct store of an imported definition into the context maps
			n++
			key := fmt.Sprintf("public:%s#%d", FuncName(fn), n)
			guarded := false
			for d := mu.Block(); d != nil; d = d.Idom() {
				p := d.Idom()
				if p == nil {
					continue
				}
				c, neg := condOf(p)
				var calls []ssa.Value
				collectCalls(c, &calls, 0)
				for _, cv := range calls {
					if call, ok := cv.(*ssa.Call); ok {
						if callee := call.Call.StaticCallee(); callee != nil && callee.Name() == "Public" {
							idx := 0
							if neg {
								idx = 1
							}
							if p.Succs[idx].Dominates(mu.Block()) {
								guarded = true
							}
						}
					}
				}
			}
			if guarded {
				r.Ok(rule, key, w.Pos(mu.Pos()), "imported definition stored only on the Public() branch")
			} else {
				r.Bad(rule, key, w.Pos(mu.Pos()), "an imported definition is made visible without testing that it is public: private names of an imported file become usable")
			}
		}
	}
	if n == 0 {
		r.Bad(rule, "public:none", "-", "no store of imported definitions into the importing context found")
	}
}

func collectCalls(v ssa.Value, out *[]ssa.Value, depth int) {
	if v == nil || depth > 4 {
		return
	}
	switch x := v.(type) {
	case *ssa.Call:
		*out = append(*out, x)
	case *ssa.UnOp:
		collectCalls(x.X, out, depth+1)
	case *ssa.Phi:
		for _, e := range x.Edges {
			collectCalls(e, out, depth+1)
		}
	case *ssa.BinOp:
		collectCalls(x.X, out, depth+1)
		collectCalls(x.Y, out, depth+1)
	}
}

// =================================================================================================
// C09
// =================================================================================================

func runC09(w *World) *Result {
	r := NewResult("C09")
	r.Explanation = "Decides structural conditions of linking and dead-function removal (SSA over the parser): (edge) the call node is built at one site that records the callee's emitted name under the current function key before the node exists; the key is set before a function body is parsed and reset afterwards; the clean-up removes only function definitions whose name is absent from the closure computed from the top-level key; (merge) when the call graph of an imported file is merged, membership is tested against the destination list while ranging over the incoming list (a membership test of an element in the list it is ranged from is vacuous); (prefix) the namespace prefix is the first component of emitted shell identifiers and must therefore start with a letter or underscore for every file content; (public) only public definitions are imported and alias lookups are tested."
	r.NotDecided = "behaviour of diamonds / repeated aliases at run time (duplicate top-level statements of a file reached twice)."
	r.Rule("R-C09-edge", "call edges recorded at the single construction site of call nodes; key set/reset around bodies; removal keyed by the closure", 3)
	r.Rule("R-C09-merge", "merging call edges: no vacuous membership test (element tested against the list it ranges over); a map entry extended in a loop extends its current value; an element found missing is added to the collection that was tested", 4)
	r.Rule("R-C09-prefix", "namespace prefix starts with a letter or underscore for all contents and is a digest of the whole file content (different files, different name spaces)", 2)
	r.Rule("R-C09-public", "only public definitions are imported; public = first rune upper case (one predicate feeds every flag)", 3)
	cf, err := buildCtxFacts(w)
	if err != nil {
		r.Bad("R-C09-edge", "context:facts", "-", err.Error())
		return r
	}
	c09Edge(w, r, "R-C09-edge")
	c09Merge(w, r, "R-C09-merge")
	c09Prefix(w, r)
	PrefixDigestRule(w, r, "R-C09-prefix", nil)
	c09PrefixApplied(w, r, "R-C09-prefix")
	PrefixBuilderRule(w, r, "R-C09-prefix")
	c07Public(w, cf, r, "R-C09-public")
	c07Predicate(w, r, "R-C09-public")
	r.Rule("R-C09-once", "a file reached along several import paths is added to the program once (set of included files shared by reference with the import parsers, consulted and updated under the file's identity)", 1)
	c09Once(w, r, "R-C09-once")
	r.Rule("R-C09-keys", "tables of the parsing context that are filled under namespace-prefixed keys are looked up under keys built the same way", 2)
	c09Keys(w, cf, r, "R-C09-keys")
	r.Rule("R-C09-state", "what is emitted for one program does not depend on an earlier Transpile call on the same object (function definitions are never skipped because of remembered names)", 1)
	c14TranspileState(w, r, "R-C09-state")
	return r
}

func c09Edge(w *World, r *Result, rule string) {
	var sites []*ssa.Function
	for _, fn := range w.Funcs("parser") {
		if constructsNode(fn, "FunctionCall") && fn.Parent() == nil {
			sites = append(sites, fn)
		}
	}
	if len(sites) != 1 {
		var ns []string
		for _, f := range sites {
			ns = append(ns, FuncName(f))
		}
		r.Bad(rule, "edge:single-site", "-", fmt.Sprintf("FunctionCall nodes are built at %d sites %v: every site must record the call edge", len(sites), ns))
	}
	for _, fn := range sites {
		// the MapUpdate into the used-function map must dominate the construction and store a list containing the callee name
		var construct ssa.Instruction
		for _, b := range fn.Blocks {
			for _, ins := range b.Instrs {
				if mi, ok := ins.(*ssa.MakeInterface); ok && namedName(mi.X.Type()) == "FunctionCall" {
					construct = mi
				}
			}
		}
		var updates []*ssa.MapUpdate
		for _, b := range fn.Blocks {
			for _, ins := range b.Instrs {
				if mu, ok := ins.(*ssa.MapUpdate); ok {
					updates = append(updates, mu)
				}
			}
		}
		recorded := false
		keyOK := false
		keyComputed := ""
		nameOK := false
		// record sites: a map store in this function, or a call of a helper that stores (on all
		// its paths) append(entry, <parameter …>) under a key taken from another parameter
		type recSite struct {
			at    ssa.Instruction
			key   ssa.Value
			elems []ssa.Value
		}
		var recs []recSite
		for _, mu := range updates {
			for _, ap := range appendsFeeding(mu.Value, 0, map[ssa.Value]bool{}) {
				recs = append(recs, recSite{mu, mu.Key, []ssa.Value{ap.Call.Args[1]}})
			}
		}
		for _, b := range fn.Blocks {
			for _, ins := range b.Instrs {
				call, ok := ins.(*ssa.Call)
				if !ok {
					continue
				}
				h := call.Call.StaticCallee()
				if h == nil || h.Blocks == nil || !w.IsProduct(pkgOf(h)) || returnsNode(h) {
					continue
				}
				// a set per caller: the helper looks the caller's set up (making it when absent) and
				// enters the callee into it on all its paths
				for _, hb := range h.Blocks {
					for _, hi := range hb.Instrs {
						var setV, elemV ssa.Value
						switch y := hi.(type) {
						case *ssa.MapUpdate:
							setV, elemV = y.Map, y.Key
						case *ssa.Call:
							if c2 := y.Call.StaticCallee(); c2 != nil && wrapsMapUpdate(c2) && len(y.Call.Args) == 2 {
								setV, elemV = y.Call.Args[0], y.Call.Args[1]
							}
						}
						if setV == nil || !dominatesReturns(h, hb) {
							continue
						}
						// the set comes from a lookup of the outer map under a parameter
						var outerKey ssa.Value
						var from func(v ssa.Value, d int)
						from = func(v ssa.Value, d int) {
							if d > 4 || outerKey != nil {
								return
							}
							switch z := v.(type) {
							case *ssa.Phi:
								for _, e := range z.Edges {
									from(e, d+1)
								}
							case *ssa.Extract:
								from(z.Tuple, d+1)
							case *ssa.Lookup:
								if _, isMap := z.X.Type().Underlying().(*types.Map); isMap {
									outerKey = z.Index
								}
							}
						}
						from(setV, 0)
						if outerKey == nil {
							continue
						}
						keyArg := argForParam(h, outerKey, call)
						elArg := argForParam(h, elemV, call)
						if keyArg != nil && elArg != nil {
							recs = append(recs, recSite{call, keyArg, []ssa.Value{elArg}})
						}
					}
				}
				for _, hb := range h.Blocks {
					for _, hi := range hb.Instrs {
						mu, ok := hi.(*ssa.MapUpdate)
						if !ok || !(dominatesReturns(h, hb) || onlyIfAbsent(h, hb, mu)) {
							continue
						}
						keyArg := argForParam(h, mu.Key, call)
						if keyArg == nil {
							continue
						}
						for _, ap := range appendsFeeding(mu.Value, 0, map[ssa.Value]bool{}) {
							var elems []ssa.Value
							for _, e := range append(variadicElems(ap.Call.Args[1]), ap.Call.Args[1]) {
								if a := argForParam(h, e, call); a != nil {
									elems = append(elems, a)
								} else if a := argForElemOfParam(h, e, call); a != nil {
									elems = append(elems, a)
								}
							}
							if len(elems) > 0 {
								recs = append(recs, recSite{call, keyArg, elems})
							}
						}
					}
				}
			}
		}
		for _, rc := range recs {
			okRec := construct == nil || reachesBefore(rc.at, construct)
			if !okRec {
				continue
			}
			recorded = true
			for _, el := range rc.elems {
				src := newSrcSet()
				backward(el, src, map[ssa.Value]bool{})
				for _, ve := range variadicElems(el) {
					backward(ve, src, map[ssa.Value]bool{})
				}
				for n := range src.calls {
					if strings.HasSuffix(n, ".Name") {
						nameOK = true
					}
				}
			}
			ks := newSrcSet()
			backward(rc.key, ks, map[ssa.Value]bool{})
			if len(ks.fields) > 0 {
				keyOK = true
			}
			// the key is the stored current-function key itself: a key computed from it where the
			// edge is recorded (prefix + "_" + key) turns the empty key of top-level code into
			// something the reachability walk never starts from
			var viaCall func(v ssa.Value, d int) string
			viaCall = func(v ssa.Value, d int) string {
				if d > 4 || v == nil {
					return ""
				}
				switch x := v.(type) {
				case *ssa.Phi:
					for _, e := range x.Edges {
						if c := viaCall(e, d+1); c != "" {
							return c
						}
					}
				case *ssa.Call:
					if callee := x.Call.StaticCallee(); callee != nil && w.IsProduct(pkgOf(callee)) && isString(x.Type()) {
						for _, a := range x.Call.Args {
							as := newSrcSet()
							backward(a, as, map[ssa.Value]bool{})
							if len(as.fields) > 0 {
								return FuncName(callee)
							}
						}
					}
				}
				return ""
			}
			if c := viaCall(rc.key, 0); c != "" {
				keyComputed = c
			}
		}
		pos := w.Pos(fn.Pos())
		switch {
		case !recorded:
			r.Bad(rule, "edge:record", pos, "the call node is built without (on every path) appending the callee to the used-function map: a called function can be removed as unused")
		case !nameOK:
			r.Bad(rule, "edge:record:name", pos, "the recorded callee is not the emitted name of the looked-up definition")
		case !keyOK:
			r.Bad(rule, "edge:record:key", pos, "the call edge is not recorded under the current function key")
		case keyComputed != "":
			r.Bad(rule, "edge:record:key", pos, "the call edge is recorded under a key computed by "+keyComputed+" from the stored current-function key, not under the stored key itself: for the top-level code of an imported file the stored key is empty and the computed one is not, so functions called only from there are never reached from the root and are removed as unused")
		default:
			r.Ok(rule, "edge:record", pos, "callee's emitted name appended under the current-function key before the call node is built")
		}
	}
	// key set before the body and reset after it
	for _, fn := range w.Funcs("parser") {
		if !constructsNode(fn, "FunctionDefinition") || fn.Parent() != nil {
			continue
		}
		var stores []*ssa.Store
		var bodyCall *ssa.Call
		for _, b := range fn.Blocks {
			for _, ins := range b.Instrs {
				switch x := ins.(type) {
				case *ssa.Store:
					if fa, ok := x.Addr.(*ssa.FieldAddr); ok && isString(x.Val.Type()) {
						if pt, ok := fa.X.Type().Underlying().(*types.Pointer); ok && isNamed(pt.Elem(), "Parser") {
							stores = append(stores, x)
						}
					}
				case *ssa.Call:
					for _, a := range x.Call.Args {
						if k, ok := a.(*ssa.Const); ok && k.Value != nil && isNamed(k.Type(), "scope") && bodyCall == nil {
							bodyCall = x
						}
					}
				}
			}
		}
		set, reset := false, false
		for _, st := range stores {
			if bodyCall == nil {
				continue
			}
			before := st.Block().Dominates(bodyCall.Block()) && (st.Block() != bodyCall.Block() || instrIndex(st) < instrIndex(bodyCall))
			if k, ok := st.Val.(*ssa.Const); ok && k.Value != nil && constant.StringVal(k.Value) == "" {
				if !before {
					reset = true
				}
			} else if before {
				set = true
			}
		}
		pos := w.Pos(fn.Pos())
		if set && reset {
			r.Ok(rule, "edge:current-function-key", pos, "current-function key set before the body is parsed and reset to the top-level key afterwards")
		} else {
			r.Bad(rule, "edge:current-function-key", pos, fmt.Sprintf("current-function key handling around the body is incomplete (set before body: %v, reset after: %v): calls would be attributed to the wrong caller", set, reset))
		}
	}
	// removal: DeleteFunc predicate = not contained in the closure from the top-level key
	for _, fn := range w.Funcs("parser") {
		if fn.Parent() != nil {
			continue
		}
		var del *ssa.Call
		for _, b := range fn.Blocks {
			for _, ins := range b.Instrs {
				if c, ok := ins.(*ssa.Call); ok {
					if callee := c.Call.StaticCallee(); callee != nil && strings.HasPrefix(callee.String(), "slices.DeleteFunc") {
						del = c
					}
				}
			}
		}
		if del == nil {
			continue
		}
		pos := w.Pos(del.Pos())
		ok := false
		why := "predicate not recognised"
		if mc, isMC := del.Call.Args[1].(*ssa.MakeClosure); isMC {
			cl := mc.Fn.(*ssa.Function)
			// returns !Contains(used, name) only under the function-definition tag; false otherwise
			hasContains, negated, tagged, otherFalse := false, false, false, true
			for _, b := range cl.Blocks {
				for _, ins := range b.Instrs {
					switch x := ins.(type) {
					case *ssa.Call:
						if callee := x.Call.StaticCallee(); callee != nil && strings.HasPrefix(callee.String(), "slices.Contains") {
							hasContains = true
						}
						if callee := x.Call.StaticCallee(); callee != nil && isSetLookupFn(callee) {
							hasContains = true
						}
					case *ssa.Lookup:
						// membership in a set kept as a map (used[name])
						if _, isMap := x.X.Type().Underlying().(*types.Map); isMap {
							hasContains = true
						}
					case *ssa.UnOp:
						if x.Op == token.NOT {
							negated = true
						}
					case *ssa.BinOp:
						for _, side := range []ssa.Value{x.X, x.Y} {
							if k, ok := side.(*ssa.Const); ok && k.Value != nil && isNamed(k.Type(), "StatementType") {
								tagged = true
							}
						}
					case *ssa.Return:
						if k, ok := x.Results[0].(*ssa.Const); ok && k.Value != nil && constant.BoolVal(k.Value) {
							otherFalse = false
						}
					}
				}
			}
			ok = hasContains && negated && tagged && otherFalse
			why = fmt.Sprintf("membership test %v, negated %v, restricted to function definitions %v, keeps everything else %v", hasContains, negated, tagged, otherFalse)
		}
		// the closure starts from the top-level key ""
		startOK := false
		for _, b := range fn.Blocks {
			for _, ins := range b.Instrs {
				if c, ok := ins.(*ssa.Call); ok {
					for _, a := range c.Call.Args {
						if k, ok := a.(*ssa.Const); ok && k.Value != nil && k.Value.Kind() == constant.String && constant.StringVal(k.Value) == "" {
							startOK = true
						}
					}
				}
			}
		}
		// what is kept is what can be reached from the top-level key: the function that computes it
		// (and its helpers) reads the call edges by key only — going over all recorded edges keeps
		// what is only called from functions that are themselves never called
		for _, b := range fn.Blocks {
			for _, ins := range b.Instrs {
				c, isCall := ins.(*ssa.Call)
				if !isCall {
					continue
				}
				isStart := false
				for _, a := range c.Call.Args {
					if k, ok := a.(*ssa.Const); ok && k.Value != nil && k.Value.Kind() == constant.String && constant.StringVal(k.Value) == "" {
						isStart = true
					}
				}
				g := c.Call.StaticCallee()
				if !isStart || g == nil || g.Blocks == nil || pkgOf(g) != pkgOf(fn) {
					continue
				}
				var whole []string
				seenFn := map[*ssa.Function]bool{}
				var walk func(h *ssa.Function, d int)
				walk = func(h *ssa.Function, d int) {
					if h == nil || h.Blocks == nil || seenFn[h] || d > 3 || pkgOf(h) != pkgOf(fn) {
						return
					}
					seenFn[h] = true
					for _, a := range h.AnonFuncs {
						walk(a, d)
					}
					for _, hb := range h.Blocks {
						for _, hi := range hb.Instrs {
							switch y := hi.(type) {
							case *ssa.Range:
								if isEdgeMap(y.X.Type()) {
									whole = append(whole, w.Pos(y.Pos()))
								}
							case *ssa.Call:
								if cal := y.Call.StaticCallee(); cal != nil {
									if n := cal.String(); strings.HasPrefix(n, "maps.Keys") || strings.HasPrefix(n, "maps.Values") || strings.HasPrefix(n, "maps.All") {
										if len(y.Call.Args) == 1 && isEdgeMap(y.Call.Args[0].Type()) {
											whole = append(whole, w.Pos(y.Pos()))
										}
									}
									walk(cal, d+1)
								}
							}
						}
					}
				}
				walk(g, 0)
				key := "edge:closure-keyed:" + FuncName(g)
				if len(whole) > 0 {
					r.Bad(rule, key, whole[0], "the set of functions to keep is computed by going over all recorded call edges instead of following them from the top-level key: a function that is only called from functions which are never called is kept (and emitted)")
				} else {
					r.Ok(rule, key, w.Pos(g.Pos()), "the call edges are read by key only while the set of functions to keep is computed")
				}
			}
		}
		if ok && startOK {
			r.Ok(rule, "edge:removal", pos, "only function definitions outside the closure of the top-level key are removed")
		} else {
			r.Bad(rule, "edge:removal", pos, "the unused-function filter can remove something executed code reaches ("+why+fmt.Sprintf("; closure from top-level key %v)", startOK))
		}
	}
}

// isEdgeMap: a map from a name to a collection of names (list or set).
func isEdgeMap(t types.Type) bool {
	m, ok := t.Underlying().(*types.Map)
	if !ok || !isString(m.Key()) {
		return false
	}
	switch e := m.Elem().Underlying().(type) {
	case *types.Slice:
		return isString(e.Elem())
	case *types.Map:
		return isString(e.Key())
	}
	return false
}

// reachesBefore: a is executed on every path before b (dominance, or same map key update in a join).
// appendsFeeding: the append calls whose result reaches v (directly or through merges of a loop).
// createdParser: ins creates a parser for an imported file inside the method fn of the parser:
// a call of a package function that returns one (by pointer, or by value stored into a local),
// or a literal of the parser type on which a method is called. The anchor is the value the
// fields of the new parser are reached through.
func createdParser(w *World, fn *ssa.Function, ins ssa.Instruction) (ssa.Value, token.Pos) {
	if len(fn.Params) == 0 {
		return nil, token.NoPos
	}
	recvPtr, ok := fn.Params[0].Type().Underlying().(*types.Pointer)
	if !ok {
		return nil, token.NoPos
	}
	switch x := ins.(type) {
	case *ssa.Call:
		callee := x.Call.StaticCallee()
		if callee == nil || pkgOf(callee) != w.Pkgs["parser"].Types || callee.Signature.Recv() != nil || callee.Signature.Results().Len() != 1 {
			return nil, token.NoPos
		}
		resT := callee.Signature.Results().At(0).Type()
		switch {
		case types.Identical(resT, fn.Params[0].Type()):
			return x, x.Pos()
		case types.Identical(resT, recvPtr.Elem()):
			for _, ref := range *x.Referrers() {
				if st, ok := ref.(*ssa.Store); ok && st.Val == ssa.Value(x) {
					return st.Addr, x.Pos()
				}
			}
		}
	case *ssa.Alloc:
		pt, ok := x.Type().Underlying().(*types.Pointer)
		if !ok || !types.Identical(pt.Elem(), recvPtr.Elem()) {
			return nil, token.NoPos
		}
		// written field by field (a literal), and used as the receiver of a method
		fields, whole, method := 0, 0, false
		for _, ref := range *x.Referrers() {
			switch y := ref.(type) {
			case *ssa.FieldAddr:
				for _, r2 := range *y.Referrers() {
					if _, ok := r2.(*ssa.Store); ok {
						fields++
					}
				}
			case *ssa.Store:
				if y.Addr == ssa.Value(x) {
					whole++
				}
			case *ssa.Call:
				if len(y.Call.Args) > 0 && y.Call.Args[0] == ssa.Value(x) && y.Call.StaticCallee() != nil && y.Call.StaticCallee().Signature.Recv() != nil {
					method = true
				}
			}
		}
		if fields > 0 && whole == 0 && method {
			return x, x.Pos()
		}
	}
	return nil, token.NoPos
}

// onlyIfAbsent: the store into the map is skipped only where the element it would add was found
// in the entry already (if !slices.Contains(m[k], e) { m[k] = append(m[k], e) }).
func onlyIfAbsent(h *ssa.Function, blk *ssa.BasicBlock, mu *ssa.MapUpdate) bool {
	par := blk.Idom()
	if par == nil || len(par.Succs) != 2 || !dominatesReturns(h, par) {
		return false
	}
	c, neg := condOf(par)
	call, ok := c.(*ssa.Call)
	if !ok || !strings.HasPrefix(calleeName(call), "slices.Contains") || len(call.Call.Args) != 2 {
		return false
	}
	// taken on the "not contained" side
	side := par.Succs[1]
	if neg {
		side = par.Succs[0]
	}
	if side != blk || len(blk.Preds) != 1 {
		return false
	}
	// the list that was searched is the entry under the same key, the element is what gets appended
	sameLoad := func(a, b ssa.Value) bool {
		if a == b {
			return true
		}
		ua, ok1 := a.(*ssa.UnOp)
		ub, ok2 := b.(*ssa.UnOp)
		if !ok1 || !ok2 {
			return false
		}
		fa, ok1 := ua.X.(*ssa.FieldAddr)
		fb, ok2 := ub.X.(*ssa.FieldAddr)
		return ok1 && ok2 && fa.X == fb.X && fa.Field == fb.Field
	}
	lk, ok := call.Call.Args[0].(*ssa.Lookup)
	if !ok || !sameLoad(lk.X, mu.Map) || lk.Index != mu.Key {
		return false
	}
	for _, ap := range appendsFeeding(mu.Value, 0, map[ssa.Value]bool{}) {
		for _, e := range append(variadicElems(ap.Call.Args[1]), ap.Call.Args[1]) {
			if e == call.Call.Args[1] {
				return true
			}
		}
	}
	return false
}

func appendsFeeding(v ssa.Value, depth int, seen map[ssa.Value]bool) []*ssa.Call {
	if v == nil || depth > 4 || seen[v] {
		return nil
	}
	seen[v] = true
	switch x := v.(type) {
	case *ssa.Call:
		if bi, ok := x.Call.Value.(*ssa.Builtin); ok && bi.Name() == "append" && len(x.Call.Args) == 2 {
			return append([]*ssa.Call{x}, appendsFeeding(x.Call.Args[0], depth+1, seen)...)
		}
	case *ssa.Phi:
		var out []*ssa.Call
		for _, e := range x.Edges {
			out = append(out, appendsFeeding(e, depth+1, seen)...)
		}
		return out
	}
	return nil
}

// argForParam: v is (a conversion of) a parameter of h; the argument the call passes for it.
func argForParam(h *ssa.Function, v ssa.Value, call *ssa.Call) ssa.Value {
	for {
		switch x := v.(type) {
		case *ssa.ChangeType:
			v = x.X
			continue
		case *ssa.Convert:
			v = x.X
			continue
		}
		break
	}
	for i, p := range h.Params {
		if ssa.Value(p) == v && i < len(call.Call.Args) {
			return call.Call.Args[i]
		}
	}
	return nil
}

// argForElemOfParam: v is an element read out of a list parameter of h (range / index); the
// list the call passes for that parameter.
func argForElemOfParam(h *ssa.Function, v ssa.Value, call *ssa.Call) ssa.Value {
	if u, ok := v.(*ssa.UnOp); ok {
		if ia, ok := u.X.(*ssa.IndexAddr); ok {
			return argForParam(h, ia.X, call)
		}
	}
	return nil
}

// dominatesReturns: blk lies on every path from the entry of fn to each of its returns.
func dominatesReturns(fn *ssa.Function, blk *ssa.BasicBlock) bool {
	n := 0
	for _, b := range fn.Blocks {
		if len(b.Instrs) == 0 {
			continue
		}
		if _, ok := b.Instrs[len(b.Instrs)-1].(*ssa.Return); ok {
			n++
			if !blk.Dominates(b) {
				return false
			}
		}
	}
	return n > 0
}

func reachesBefore(a, b ssa.Instruction) bool {
	if a.Block() == b.Block() {
		return instrIndex(a) < instrIndex(b)
	}
	if a.Block().Dominates(b.Block()) {
		return true
	}
	// conditional append (only if not yet contained) that joins before b: the edge exists either way –
	// but only when the skipping condition is exactly "already contained"
	for _, s := range a.Block().Succs {
		if s.Dominates(b.Block()) || s == b.Block() {
			if idom := a.Block().Idom(); idom != nil {
				c, _ := condOf(idom)
				if call, ok := c.(*ssa.Call); ok {
					if callee := call.Call.StaticCallee(); callee != nil && strings.HasPrefix(callee.String(), "slices.Contains") {
						return true
					}
				}
			}
		}
	}
	return false
}

func c09Merge(w *World, r *Result, rule string) {
	n := 0
	for _, fn := range w.Funcs("parser") {
		perFn := 0
		for _, b := range fn.Blocks {
			for _, ins := range b.Instrs {
				c, ok := ins.(*ssa.Call)
				if !ok {
					continue
				}
				callee := c.Call.StaticCallee()
				if callee == nil || !strings.HasPrefix(callee.String(), "slices.Contains") || len(c.Call.Args) != 2 {
					continue
				}
				n++
				perFn++
				list, elem := c.Call.Args[0], c.Call.Args[1]
				key := fmt.Sprintf("merge:%s#%d", FuncName(fn), perFn)
				// elem is a range element of the same list value
				vac := false
				if u, ok := elem.(*ssa.UnOp); ok {
					if ia, ok := u.X.(*ssa.IndexAddr); ok && (ia.X == list || rootOf(ia.X, 0) == rootOf(list, 0)) {
						vac = true
					}
				}
				if vac {
					r.Bad(rule, key, w.Pos(c.Pos()), "membership of an element is tested in the very list it is ranged from: the test is always true, so the branch that should add missing entries never runs (call edges of a later import are dropped and its functions removed as unused)")
				} else {
					r.Ok(rule, key, w.Pos(c.Pos()), "membership test between different collections")
				}
			}
		}
	}
	if n == 0 {
		r.Bad(rule, "merge:none", "-", "no membership test found in the parser")
	}
	c09Accumulate(w, r, rule)
	c09AddIfAbsent(w, r, rule)
	c09FilterFlag(w, r, rule)
	c09MergeComplete(w, r, rule)
}

// c09FilterFlag: where a loop keeps or drops each element of a list depending on a flag
// (append(kept, element) under if !flag), the flag is decided for that element alone: a
// flag that is carried over from the previous iteration (declared outside the loop and
// never reset) drops every element after the first hit.
func c09FilterFlag(w *World, r *Result, rule string) {
	for _, fn := range w.Funcs("parser") {
		loops := naturalLoops(fn)
		perFn := 0
		for _, b := range fn.Blocks {
			hdr := loops[b]
			if hdr == nil {
				continue
			}
			for _, ins := range b.Instrs {
				ap, ok := ins.(*ssa.Call)
				if !ok {
					continue
				}
				bi, ok := ap.Call.Value.(*ssa.Builtin)
				if !ok || bi.Name() != "append" || len(ap.Call.Args) != 2 {
					continue
				}
				// the appended value is the element the loop ranges over
				isElem := false
				for _, e := range variadicElems(ap.Call.Args[1]) {
					// the element itself, or a field of it (a carrier struct around the statement)
					var fromElem func(v ssa.Value, d int) bool
					fromElem = func(v ssa.Value, d int) bool {
						if d > 6 {
							return false
						}
						switch x := v.(type) {
						case *ssa.UnOp:
							return fromElem(x.X, d+1)
						case *ssa.Field:
							return fromElem(x.X, d+1)
						case *ssa.FieldAddr:
							return fromElem(x.X, d+1)
						case *ssa.MakeInterface:
							return fromElem(x.X, d+1)
						case *ssa.Alloc:
							// the element copied into a local (for _, el := range list { el.field … })
							for _, ref := range *x.Referrers() {
								if st, ok := ref.(*ssa.Store); ok && st.Addr == x && fromElem(st.Val, d+1) {
									return true
								}
							}
						case *ssa.IndexAddr:
							if ph, ok := x.Index.(*ssa.BinOp); ok {
								if p, ok := ph.X.(*ssa.Phi); ok && strings.TrimSpace(p.Comment) == "rangeindex" && p.Block() == hdr {
									return true
								}
							}
						}
						return false
					}
					if fromElem(e, 0) {
						isElem = true
					}
				}
				if !isElem {
					continue
				}
				// the flag guarding the append: a plain bool value tested by the dominating branch
				var flags []ssa.Value
				var flag ssa.Value
				for d := b; d != nil && d != hdr; d = d.Idom() {
					p := d.Idom()
					if p == nil {
						break
					}
					c, _ := condOf(p)
					if c == nil {
						continue
					}
					if _, isCall := c.(*ssa.Call); isCall {
						continue
					}
					if _, isBin := c.(*ssa.BinOp); isBin {
						continue
					}
					if (p.Succs[0].Dominates(b) && len(p.Succs[0].Preds) == 1) || (p.Succs[1].Dominates(b) && len(p.Succs[1].Preds) == 1) {
						flag = c
						flags = append(flags, c) // every flag of a conjunction (if !a && b) guards the append
					}
				}
				if flag == nil {
					continue
				}
				perFn++
				key := fmt.Sprintf("filterflag:%s#%d", FuncName(fn), perFn)
				carried := false
				seen := map[ssa.Value]bool{}
				var walk func(v ssa.Value, d int)
				walk = func(v ssa.Value, d int) {
					if d > 6 || seen[v] {
						return
					}
					seen[v] = true
					if ph, ok := v.(*ssa.Phi); ok {
						if ph.Block() == hdr {
							carried = true
							return
						}
						for _, e := range ph.Edges {
							walk(e, d+1)
						}
					}
				}
				for _, f := range flags {
					walk(f, 0)
				}
				if carried {
					r.Bad(rule, key, w.Pos(ap.Pos()), "whether an element is kept depends on a flag carried over from the previous iteration (it is not reset per element): after the first dropped duplicate, the following statements of imported files are dropped as well")
				} else {
					r.Ok(rule, key, w.Pos(ap.Pos()), "the keep/drop flag is decided anew for every element")
				}
			}
		}
	}
}

// c09AddIfAbsent: where an element that a membership test found missing is appended, the
// result of the append reaches the collection the test looked at (a map entry, a field)
// or, for a local list, is used after the loop. An append into a local copy of a map
// entry that nobody reads afterwards silently drops the element.
func c09AddIfAbsent(w *World, r *Result, rule string) {
	for _, fn := range w.Funcs("parser") {
		perFn := 0
		for _, b := range fn.Blocks {
			if len(b.Instrs) == 0 {
				continue
			}
			ifi, ok := b.Instrs[len(b.Instrs)-1].(*ssa.If)
			if !ok {
				continue
			}
			c, neg := condOf(b)
			call, ok := c.(*ssa.Call)
			if !ok {
				continue
			}
			callee := call.Call.StaticCallee()
			if callee == nil || !strings.HasPrefix(callee.String(), "slices.Contains") || len(call.Call.Args) != 2 {
				continue
			}
			_ = ifi
			// only lists that are (copies of) a shared collection: a map entry or a field
			shared := false
			var src func(v ssa.Value, d int)
			seenSrc := map[ssa.Value]bool{}
			src = func(v ssa.Value, d int) {
				if d > 4 || seenSrc[v] {
					return
				}
				seenSrc[v] = true
				switch x := v.(type) {
				case *ssa.Phi:
					for _, e := range x.Edges {
						src(e, d+1)
					}
				case *ssa.Extract:
					if _, ok := x.Tuple.(*ssa.Lookup); ok {
						shared = true
					}
				case *ssa.Lookup:
					shared = true
				case *ssa.UnOp:
					if _, ok := x.X.(*ssa.FieldAddr); ok {
						shared = true
					}
				}
			}
			src(call.Call.Args[0], 0)
			if !shared {
				continue
			}
			elem := call.Call.Args[1]
			absent := b.Succs[1]
			if neg {
				absent = b.Succs[0]
			}
			if len(absent.Preds) != 1 {
				continue
			}
			// appends of elem in the absent branch
			for _, blk := range fn.Blocks {
				if !absent.Dominates(blk) {
					continue
				}
				for _, ins := range blk.Instrs {
					ap, ok := ins.(*ssa.Call)
					if !ok {
						continue
					}
					bi, ok := ap.Call.Value.(*ssa.Builtin)
					if !ok || bi.Name() != "append" || len(ap.Call.Args) != 2 {
						continue
					}
					has := false
					for _, e := range variadicElems(ap.Call.Args[1]) {
						if e == elem {
							has = true
						}
					}
					if !has {
						continue
					}
					perFn++
					key := fmt.Sprintf("addifabsent:%s#%d", FuncName(fn), perFn)
					kept, how := false, ""
					var follow func(v ssa.Value, depth int)
					seen := map[ssa.Value]bool{}
					follow = func(v ssa.Value, depth int) {
						if seen[v] || depth > 4 {
							return
						}
						seen[v] = true
						for _, ref := range *v.Referrers() {
							switch x := ref.(type) {
							case *ssa.MapUpdate:
								if x.Value == v {
									kept, how = true, "stored into the map entry"
								}
							case *ssa.Store:
								if x.Val == v {
									kept, how = true, "stored"
								}
							case *ssa.Return:
								kept, how = true, "returned"
							case *ssa.Phi:
								follow(x, depth+1)
							case *ssa.Call:
								if x == ap || x == call {
									continue
								}
								if bi, ok := x.Call.Value.(*ssa.Builtin); ok && (bi.Name() == "append" || bi.Name() == "len") {
									if bi.Name() == "append" && x.Call.Args[0] == v {
										follow(x, depth+1)
									}
									continue
								}
								if cal := x.Call.StaticCallee(); cal != nil && strings.HasPrefix(cal.String(), "slices.Contains") {
									continue
								}
								kept, how = true, "passed on"
							default:
								if _, isVal := ref.(ssa.Value); isVal {
									kept, how = true, "used"
								}
							}
						}
					}
					follow(ap, 0)
					if kept {
						r.Ok(rule, key, w.Pos(ap.Pos()), "the element found missing is appended and the result is "+how)
					} else {
						r.Bad(rule, key, w.Pos(ap.Pos()), "the element found missing is appended to a local copy that is only consulted by the membership test itself: the collection the test looked at (map entry) never receives it, so the call edge is lost and the function behind it is removed as unused")
					}
				}
			}
		}
	}
}

// variadicElems: the values packed into the variadic argument slice of a call.
func variadicElems(v ssa.Value) []ssa.Value {
	sl, ok := v.(*ssa.Slice)
	if !ok {
		return nil
	}
	al, ok := sl.X.(*ssa.Alloc)
	if !ok {
		return nil
	}
	var out []ssa.Value
	for _, r := range *al.Referrers() {
		if ia, ok := r.(*ssa.IndexAddr); ok {
			for _, rr := range *ia.Referrers() {
				if st, ok := rr.(*ssa.Store); ok {
					out = append(out, st.Val)
				}
			}
		}
	}
	return out
}

// c09Accumulate: a map entry extended inside a loop (m[k] = append(base, e) with k fixed
// for the loop) must extend the entry's current value: a base taken before the loop makes
// every iteration overwrite the previous one, so only the last added element survives.
func c09Accumulate(w *World, r *Result, rule string) {
	for _, fn := range w.Funcs("parser") {
		var loops map[*ssa.BasicBlock]*ssa.BasicBlock
		perFn := 0
		for _, b := range fn.Blocks {
			for _, ins := range b.Instrs {
				mu, ok := ins.(*ssa.MapUpdate)
				if !ok {
					continue
				}
				c, ok := mu.Value.(*ssa.Call)
				if !ok {
					continue
				}
				bi, ok := c.Call.Value.(*ssa.Builtin)
				if !ok || bi.Name() != "append" || len(c.Call.Args) < 1 {
					continue
				}
				if loops == nil {
					loops = naturalLoops(fn)
				}
				hdr := loops[b]
				if hdr == nil {
					continue
				}
				perFn++
				key := fmt.Sprintf("accumulate:%s#%d", FuncName(fn), perFn)
				body := loopBody(hdr)
				inBody := func(v ssa.Value) bool {
					i, ok := v.(ssa.Instruction)
					return ok && i.Block() != nil && body[i.Block()] && !(i.Block() == hdr && isPhi(v))
				}
				base := c.Call.Args[0]
				switch {
				case inBody(mu.Key):
					r.Ok(rule, key, w.Pos(mu.Pos()), "the entry's key changes with every iteration")
				case inBody(base):
					r.Ok(rule, key, w.Pos(mu.Pos()), "each iteration extends a value read inside the loop")
				default:
					if _, isPhi := base.(*ssa.Phi); isPhi {
						r.Ok(rule, key, w.Pos(mu.Pos()), "the base is carried from the previous iteration")
					} else {
						r.Bad(rule, key, w.Pos(mu.Pos()), "inside the loop the map entry is set to append(<value read before the loop>, element): each iteration overwrites the previous one, so of several missing call edges only the last is recorded and the functions behind the others are removed as unused")
					}
				}
			}
		}
	}
}

func isPhi(v ssa.Value) bool {
	_, ok := v.(*ssa.Phi)
	return ok
}

func c09Prefix(w *World, r *Result) {
	rule := "R-C09-prefix"
	found := false
	prefixField := parserPrefixField(w)
	for _, fn := range w.Funcs("parser") {
		for _, b := range fn.Blocks {
			for _, ins := range b.Instrs {
				st, ok := ins.(*ssa.Store)
				if !ok {
					continue
				}
				fa, ok := st.Addr.(*ssa.FieldAddr)
				if !ok || prefixField == "" || structFieldName(fa.X.Type(), fa.Field) != prefixField {
					continue
				}
				if k, ok := st.Val.(*ssa.Const); ok && k.Value != nil {
					continue
				}
				found = true
				// first character of the computed prefix
				first := firstCharClass(st.Val, 0)
				pos := w.Pos(st.Pos())
				switch first {
				case "letter":
					r.Ok(rule, "prefix:first-character", pos, "computed prefix starts with a literal letter/underscore")
				case "hex", "digit":
					r.Bad(rule, "prefix:first-character", pos, "the prefix is the beginning of a hexadecimal digest and is emitted as the first component of shell identifiers: for 10 of 16 file contents it starts with a digit, which is not a valid identifier start (88c27bd_name=1: command not found)")
				default:
					r.Bad(rule, "prefix:first-character", pos, "cannot determine the first character class of the computed prefix")
				}
				// what identifies a file: the prefix keeps the names of different files apart (and is
				// the key under which a file counts as included already). A prefix computed from the
				// file's content alone gives two different files with the same text one name space
				// and one inclusion
				fromContent, fromPath := false, false
				seenV := map[ssa.Value]bool{}
				var walk func(v ssa.Value, d int)
				walk = func(v ssa.Value, d int) {
					if v == nil || d > 14 || seenV[v] {
						return
					}
					seenV[v] = true
					switch x := v.(type) {
					case *ssa.Parameter:
						if isString(x.Type()) {
							fromPath = true // the only text a parse function receives besides the content is where the file is
						}
					case *ssa.Call:
						if callee := x.Call.StaticCallee(); callee != nil {
							switch callee.String() {
							case "os.ReadFile", "io/ioutil.ReadFile":
								fromContent = true
								return // the name is used to find the content, it does not enter the digest
							}
							if strings.HasPrefix(callee.String(), "path/filepath.") {
								fromPath = true
							}
						}
						if x.Call.IsInvoke() {
							walk(x.Call.Value, d+1)
							// what was written into a hash before its sum was taken
							if refs := x.Call.Value.Referrers(); refs != nil {
								for _, ref := range *refs {
									if c2, ok := ref.(*ssa.Call); ok && c2.Call.IsInvoke() && c2.Call.Value == x.Call.Value && c2 != x {
										for _, a := range c2.Call.Args {
											walk(a, d+1)
										}
									}
								}
							}
						}
						for _, a := range x.Call.Args {
							walk(a, d+1)
						}
					case *ssa.UnOp:
						if fa, ok := x.X.(*ssa.FieldAddr); ok && isString(x.Type()) {
							_ = fa
							fromPath = true // a text field of the parser (the path it was given)
							return
						}
						walk(x.X, d+1)
					case *ssa.Alloc:
						if refs := x.Referrers(); refs != nil {
							for _, ref := range *refs {
								switch y := ref.(type) {
								case *ssa.Store:
									if y.Addr == ssa.Value(x) {
										walk(y.Val, d+1)
									}
								case *ssa.IndexAddr:
									for _, r2 := range *y.Referrers() {
										if s2, ok := r2.(*ssa.Store); ok && s2.Addr == ssa.Value(y) {
											walk(s2.Val, d+1)
										}
									}
								}
							}
						}
					default:
						if ins, ok := v.(ssa.Instruction); ok {
							for _, op := range ins.Operands(nil) {
								if op != nil && *op != nil {
									walk(*op, d+1)
								}
							}
						}
					}
				}
				walk(st.Val, 0)
				if fromContent && !fromPath {
					r.Bad(rule, "prefix:identity", pos, "the prefix of a file (its name space, and the key by which it counts as included already) is a digest of the file's content only: two different files with the same text are one module — they share their globals and their top-level code runs once")
				} else {
					r.Ok(rule, "prefix:identity", pos, "the prefix depends on more than the content of the file")
				}
			}
		}
	}
	if !found {
		r.Bad(rule, "prefix:store", "-", "no computed value is stored into the parser's prefix")
	}
	prefixSpellable(w, r, rule)
}

// prefixSpellable: a prefixed name (prefix + separator + name) must not be a word of the user
// identifier language, or a definition of another file that is spelled like it takes its
// place: with the separator "_" and a prefix made of a letter and hexadecimal digits,
// hfa12bad_helper is a perfectly legal function name of the importing file.
func prefixSpellable(w *World, r *Result, rule string) {
	for _, fn := range w.Funcs("parser") {
		if fn.Signature.Recv() != nil || fn.Parent() != nil || len(fn.Params) != 2 || !isString(fn.Params[0].Type()) || !isString(fn.Params[1].Type()) {
			continue
		}
		res := fn.Signature.Results()
		if res.Len() != 1 || !isString(res.At(0).Type()) {
			continue
		}
		// joins its two parameters: both flow into the result
		joins := false
		var lits []string
		for _, b := range fn.Blocks {
			for _, ins := range b.Instrs {
				switch x := ins.(type) {
				case *ssa.BinOp:
					if x.Op == token.ADD && isString(x.Type()) {
						joins = true
						for _, side := range []ssa.Value{x.X, x.Y} {
							if k, ok := side.(*ssa.Const); ok && k.Value != nil && k.Value.Kind() == constant.String {
								lits = append(lits, constant.StringVal(k.Value))
							}
						}
					}
				case *ssa.Call:
					if callee := x.Call.StaticCallee(); callee != nil && callee.String() == "fmt.Sprintf" {
						if k, ok := x.Call.Args[0].(*ssa.Const); ok && k.Value != nil {
							joins = true
							lits = append(lits, strings.ReplaceAll(constant.StringVal(k.Value), "%s", ""))
						}
					}
				}
			}
		}
		usesPrefixTest := false
		for _, b := range fn.Blocks {
			for _, ins := range b.Instrs {
				if c, ok := ins.(*ssa.Call); ok {
					if callee := c.Call.StaticCallee(); callee != nil && callee.String() == "strings.HasPrefix" {
						usesPrefixTest = true
					}
				}
			}
		}
		if !joins || !usesPrefixTest {
			continue
		}
		sep := strings.Join(lits, "")
		legal := sep != ""
		for _, ch := range sep {
			if !(ch == '_' || (ch >= 'a' && ch <= 'z') || (ch >= 'A' && ch <= 'Z') || (ch >= '0' && ch <= '9')) {
				legal = false
			}
		}
		key := "prefix:spellable"
		if legal {
			r.Bad(rule, key, w.Pos(fn.Pos()), fmt.Sprintf("a prefixed name is prefix + %q + name, every character of which may occur in a user identifier: the importing file can define (or call) h<digest>%sname itself, which then stands for the imported file's definition", sep, sep))
		} else {
			r.Ok(rule, key, w.Pos(fn.Pos()), fmt.Sprintf("prefixed names contain %q, which no user identifier can", sep))
		}
	}
}

// firstCharClass: "letter", "hex", "digit", "?" for the first character of a string value.
func firstCharClass(v ssa.Value, depth int) string {
	if depth > 5 {
		return "?"
	}
	switch x := v.(type) {
	case *ssa.Slice:
		if k, ok := x.Low.(*ssa.Const); x.Low == nil || (ok && k.Int64() == 0) {
			return firstCharClass(x.X, depth+1)
		}
	case *ssa.BinOp:
		if x.Op == token.ADD {
			if k, ok := x.X.(*ssa.Const); ok && k.Value != nil && k.Value.Kind() == constant.String {
				s := constant.StringVal(k.Value)
				if s != "" {
					return classOfByte(s[0])
				}
				return firstCharClass(x.Y, depth+1)
			}
			return firstCharClass(x.X, depth+1)
		}
	case *ssa.Const:
		if x.Value != nil && x.Value.Kind() == constant.String {
			if s := constant.StringVal(x.Value); s != "" {
				return classOfByte(s[0])
			}
		}
	case *ssa.Call:
		callee := x.Call.StaticCallee()
		if callee != nil && callee.String() == "fmt.Sprintf" {
			if k, ok := x.Call.Args[0].(*ssa.Const); ok && k.Value != nil {
				f := constant.StringVal(k.Value)
				if f == "" {
					return "?"
				}
				if f[0] != '%' {
					return classOfByte(f[0])
				}
				if len(f) > 1 {
					switch f[1] {
					case 'x', 'X':
						return "hex"
					case 'd':
						return "digit"
					}
				}
			}
		}
		if callee != nil && (callee.String() == "encoding/hex.EncodeToString") {
			return "hex"
		}
		// a helper of the product: what it returns
		if callee != nil && callee.Blocks != nil && callee.Pkg == x.Parent().Pkg {
			cls := ""
			for _, b := range callee.Blocks {
				if ret, ok := b.Instrs[len(b.Instrs)-1].(*ssa.Return); ok && len(ret.Results) >= 1 {
					c := firstCharClass(ret.Results[0], depth+1)
					if cls == "" {
						cls = c
					} else if cls != c {
						return "?"
					}
				}
			}
			if cls != "" {
				return cls
			}
		}
	case *ssa.Phi:
		cls := ""
		for _, e := range x.Edges {
			c := firstCharClass(e, depth+1)
			if cls == "" {
				cls = c
			} else if cls != c {
				return "?"
			}
		}
		return cls
	}
	return "?"
}

func classOfByte(c byte) string {
	switch {
	case c == '_' || (c >= 'a' && c <= 'z') || (c >= 'A' && c <= 'Z'):
		return "letter"
	case c >= '0' && c <= '9':
		return "digit"
	}
	return "?"
}

// =================================================================================================
// C02 (parser side): variable identity
// =================================================================================================

// IdentRule: statements that refer to an existing variable must carry the definition the
// context lookup returned (name and global flag as defined), not a re-created one.
func IdentRule(w *World, r *Result, rule string) {
	cf, err := buildCtxFacts(w)
	if err != nil {
		r.Bad(rule, "ident:context", "-", err.Error())
		return
	}
	existing := map[string]bool{"VariableAssignment.variables": true, "VariableAssignmentCallAssignment.variables": true, "SliceAssignment.Variable": true, "Copy.destination": true, "VariableEvaluation.Variable": true}
	pkg := w.Pkgs["parser"].Types
	n := 0
	for _, fn := range w.Funcs("parser") {
		perKey := map[string]int{}
		for _, b := range fn.Blocks {
			for _, ins := range b.Instrs {
				st, ok := ins.(*ssa.Store)
				if !ok {
					continue
				}
				fa, ok := st.Addr.(*ssa.FieldAddr)
				if !ok {
					continue
				}
				pt, ok := fa.X.Type().Underlying().(*types.Pointer)
				if !ok {
					continue
				}
				named, ok := pt.Elem().(*types.Named)
				if !ok || named.Obj().Pkg() != pkg {
					continue
				}
				k := named.Obj().Name() + "." + structFieldName(fa.X.Type(), fa.Field)
				if !existing[k] {
					continue
				}
				n++
				perKey[k]++
				key := fmt.Sprintf("ident:%s@%s#%d", k, FuncName(fn), perKey[k])
				ok2, why := identOrigin(w, cf, fn, st.Val, 0, map[ssa.Value]bool{})
				if ok2 {
					r.Ok(rule, key, w.Pos(st.Pos()), why)
				} else {
					r.Bad(rule, key, w.Pos(st.Pos()), why)
				}
			}
		}
	}
	if n < 5 {
		r.Bad(rule, "ident:sites", "-", fmt.Sprintf("only %d stores of variables into referring statements found", n))
	}
	// the other direction: a statement that defines variables carries variables made for the
	// scope it stands in, never a definition that a look-up found (which may be a global, seen
	// from inside a function: the definition would write the global)
	declaring := map[string]bool{"VariableDefinition.variables": true, "VariableDefinitionCallAssignment.variables": true}
	for _, fn := range w.Funcs("parser") {
		perKey := map[string]int{}
		for _, b := range fn.Blocks {
			for _, ins := range b.Instrs {
				st, ok := ins.(*ssa.Store)
				if !ok {
					continue
				}
				fa, ok := st.Addr.(*ssa.FieldAddr)
				if !ok {
					continue
				}
				pt, ok := fa.X.Type().Underlying().(*types.Pointer)
				if !ok {
					continue
				}
				named, ok := pt.Elem().(*types.Named)
				if !ok || named.Obj().Pkg() != pkg {
					continue
				}
				k := named.Obj().Name() + "." + structFieldName(fa.X.Type(), fa.Field)
				if !declaring[k] {
					continue
				}
				perKey[k]++
				key := fmt.Sprintf("ident:fresh:%s@%s#%d", k, FuncName(fn), perKey[k])
				found := ""
				seen := map[ssa.Value]bool{}
				var back func(v ssa.Value, d int)
				back = func(v ssa.Value, d int) {
					if v == nil || d > 8 || seen[v] || found != "" {
						return
					}
					seen[v] = true
					switch x := v.(type) {
					case *ssa.Phi:
						for _, e := range x.Edges {
							back(e, d+1)
						}
					case *ssa.Extract:
						if c, ok := x.Tuple.(*ssa.Call); ok {
							if callee := c.Call.StaticCallee(); callee != nil && cf.lookups[callee] && x.Index == 0 {
								found = w.Pos(c.Pos())
							}
						}
					case *ssa.Call:
						if bi, ok := x.Call.Value.(*ssa.Builtin); ok && bi.Name() == "append" {
							back(x.Call.Args[0], d+1)
							if len(x.Call.Args) > 1 {
								for _, e := range variadicElems(x.Call.Args[1]) {
									back(e, d+1)
								}
								back(x.Call.Args[1], d+1)
							}
						}
					case *ssa.Slice:
						for _, e := range variadicElems(x) {
							back(e, d+1)
						}
					case *ssa.UnOp:
						if al, ok := x.X.(*ssa.Alloc); ok {
							for _, ref := range *al.Referrers() {
								if s2, ok := ref.(*ssa.Store); ok && s2.Addr == ssa.Value(al) {
									back(s2.Val, d+1)
								}
							}
						}
					}
				}
				back(st.Val, 0)
				if found != "" {
					r.Bad(rule, key, w.Pos(st.Pos()), "a statement that defines variables carries a definition found by a look-up ("+found+") instead of a variable made for the scope it stands in: inside a function a, b := f() with a global a writes the global")
				} else {
					r.Ok(rule, key, w.Pos(st.Pos()), "the variables of the definition are made for the current scope")
				}
			}
		}
	}
	// reader/writer agreement of the storage key for global definitions
	for fn := range cf.lookups {
		res := fn.Signature.Results()
		if res.Len() != 2 || !isNamed(res.At(0).Type(), "Variable") {
			continue
		}
		var globalParam *ssa.Parameter
		for _, p := range fn.Params {
			if isBool(p.Type()) {
				globalParam = p
			}
		}
		if globalParam == nil {
			continue
		}
		// a primitive that is only reached through other lookups is judged through them
		callers, outside := 0, 0
		for _, g := range w.Funcs("parser") {
			for _, b := range g.Blocks {
				for _, ins := range b.Instrs {
					if c, ok := ins.(*ssa.Call); ok && c.Call.StaticCallee() == fn && g != fn {
						callers++
						if !cf.lookups[g] {
							outside++
						}
					}
				}
			}
		}
		if callers > 0 && outside == 0 {
			continue
		}
		// the key depends on the use site's scope flag; a second attempt with the global key must exist
		attempts := 0
		fallback := false
		for _, b := range fn.Blocks {
			for _, ins := range b.Instrs {
				switch x := ins.(type) {
				case *ssa.Lookup:
					if x.CommaOk {
						attempts++
					}
				case *ssa.Call:
					if x.Call.StaticCallee() == fn {
						for _, a := range x.Call.Args {
							if k, ok := a.(*ssa.Const); ok && k.Value != nil && isBool(k.Type()) && constant.BoolVal(k.Value) {
								fallback = true
							}
						}
					}
					// an attempt made by a helper that is handed the table
					if _, l := cf.tableHelperUse(x); l {
						attempts++
					}
					// the key builder is called with a scope flag that can be true although the use
					// site's flag is not (the flag is taken from a list of attempts that holds true)
					if callee := x.Call.StaticCallee(); callee != nil && callee != fn && w.IsProduct(pkgOf(callee)) {
						for _, a := range x.Call.Args {
							if !isBool(a.Type()) || a == ssa.Value(globalParam) {
								continue
							}
							if k, isConst := a.(*ssa.Const); isConst {
								// a second attempt through another lookup of the same table, with the global key
								if cf.lookups[callee] && k.Value != nil && constant.BoolVal(k.Value) {
									fallback = true
								}
								continue
							}
							if boolMayBeTrue(a, 0, map[ssa.Value]bool{}) {
								fallback = true
							}
						}
					}
				}
			}
		}
		key := "ident:lookup-key:" + FuncName(fn)
		if attempts >= 2 || fallback {
			r.Ok(rule, key, w.Pos(fn.Pos()), "a lookup that fails under the use site's scope flag is repeated with the key global definitions are stored under")
		} else {
			r.Bad(rule, key, w.Pos(fn.Pos()), "global definitions are stored under a file-prefixed key but looked up under a key computed from the scope of the USE site: inside a function of an imported file its own globals are not found (variable G has not been defined)")
		}
	}
}

// boolMayBeTrue: the constant true is among the values the bool can take (through merges,
// elements of a list literal or of a list extended by append).
func boolMayBeTrue(v ssa.Value, depth int, seen map[ssa.Value]bool) bool {
	if v == nil || depth > 8 || seen[v] {
		return false
	}
	seen[v] = true
	switch x := v.(type) {
	case *ssa.Const:
		return x.Value != nil && isBool(x.Type()) && constant.BoolVal(x.Value)
	case *ssa.Phi:
		for _, e := range x.Edges {
			if boolMayBeTrue(e, depth+1, seen) {
				return true
			}
		}
	case *ssa.UnOp:
		return boolMayBeTrue(x.X, depth+1, seen)
	case *ssa.IndexAddr:
		return boolMayBeTrue(x.X, depth+1, seen)
	case *ssa.Slice:
		return boolMayBeTrue(x.X, depth+1, seen)
	case *ssa.Alloc:
		for _, r := range *x.Referrers() {
			if ia, ok := r.(*ssa.IndexAddr); ok {
				for _, rr := range *ia.Referrers() {
					if st, ok := rr.(*ssa.Store); ok && boolMayBeTrue(st.Val, depth+1, seen) {
						return true
					}
				}
			}
		}
	case *ssa.Call:
		if bi, ok := x.Call.Value.(*ssa.Builtin); ok && bi.Name() == "append" {
			for _, a := range x.Call.Args {
				if boolMayBeTrue(a, depth+1, seen) {
					return true
				}
			}
		}
	}
	return false
}

// identOrigin: the Variable value comes from a lookup, from a declaration made by the same
// statement (declared to the context), or – for parameters – satisfies this at every call site.
func identOrigin(w *World, cf *ctxFacts, fn *ssa.Function, v ssa.Value, depth int, seen map[ssa.Value]bool) (bool, string) {
	if depth > 6 || seen[v] {
		return true, "…"
	}
	seen[v] = true
	switch x := v.(type) {
	case *ssa.Extract:
		if c, ok := x.Tuple.(*ssa.Call); ok {
			if callee := c.Call.StaticCallee(); callee != nil && cf.lookups[callee] {
				return true, "the definition returned by " + callee.Name()
			}
			// a helper of the parser that hands back what a look-up returned (or nothing, with an error)
			if callee := c.Call.StaticCallee(); callee != nil && callee.Blocks != nil && callee.Pkg == fn.Pkg {
				n := 0
				for _, b := range callee.Blocks {
					ret, ok := b.Instrs[len(b.Instrs)-1].(*ssa.Return)
					if !ok || x.Index >= len(ret.Results) {
						continue
					}
					n++
					if ok, why := identOrigin(w, cf, callee, ret.Results[x.Index], depth+1, seen); !ok {
						return false, "returned by " + FuncName(callee) + ": " + why
					}
				}
				if n > 0 {
					return true, "the definition handed back by " + FuncName(callee) + " (every return: a look-up or nothing)"
				}
			}
		}
	case *ssa.Call:
		callee := x.Call.StaticCallee()
		if bi, ok := x.Call.Value.(*ssa.Builtin); ok && bi.Name() == "append" {
			for _, a := range x.Call.Args {
				if ok, why := identOrigin(w, cf, fn, a, depth+1, seen); !ok {
					return false, why
				}
			}
			return true, "list of looked-up definitions"
		}
		if callee != nil && isDefinitionCtor(callee, "Variable") {
			// a declaration of this very statement: the same value is handed to the context
			for _, ref := range *x.Referrers() {
				if c2, ok := ref.(*ssa.Call); ok {
					if cal := c2.Call.StaticCallee(); cal != nil && cf.mutators[cal] {
						return true, "variable declared by this statement (added to the context)"
					}
				}
				if st, ok := ref.(*ssa.Store); ok {
					// stored into the varargs array of a mutator call
					if ia, ok := st.Addr.(*ssa.IndexAddr); ok {
						if al, ok := ia.X.(*ssa.Alloc); ok {
							for _, r2 := range *al.Referrers() {
								if sl, ok := r2.(*ssa.Slice); ok {
									for _, r3 := range *sl.Referrers() {
										if c3, ok := r3.(*ssa.Call); ok {
											if cal := c3.Call.StaticCallee(); cal != nil && cf.mutators[cal] {
												return true, "variable declared by this statement (added to the context)"
											}
										}
									}
								}
							}
						}
					}
				}
			}
			return false, "the statement refers to an existing variable but stores a re-created Variable (NewVariable with the global flag of the USE site and the bare name): an assignment to a global inside a function writes a mangled local instead, and top-level assignments in imported files lose their prefix"
		}
	case *ssa.Phi:
		for _, e := range x.Edges {
			if ok, why := identOrigin(w, cf, fn, e, depth+1, seen); !ok {
				return false, why
			}
		}
		return true, "looked-up definitions"
	case *ssa.Slice:
		if al, ok := x.X.(*ssa.Alloc); ok {
			for _, r := range *al.Referrers() {
				if ia, ok := r.(*ssa.IndexAddr); ok {
					for _, rr := range *ia.Referrers() {
						if st, ok := rr.(*ssa.Store); ok {
							if ok, why := identOrigin(w, cf, fn, st.Val, depth+1, seen); !ok {
								return false, why
							}
						}
					}
				}
			}
			return true, "literal list of looked-up / declared variables"
		}
	case *ssa.Const:
		return true, "empty"
	case *ssa.Field:
		// dstSlice.Variable of a looked-up evaluation
		return true, "variable of an evaluation node (itself built from a lookup)"
	case *ssa.UnOp:
		if fa, ok := x.X.(*ssa.FieldAddr); ok {
			_ = fa
			return true, "variable of an evaluation node (itself built from a lookup)"
		}
		if al, ok := x.X.(*ssa.Alloc); ok {
			for _, r := range *al.Referrers() {
				if st, ok := r.(*ssa.Store); ok && st.Addr == al {
					if ok, why := identOrigin(w, cf, fn, st.Val, depth+1, seen); !ok {
						return false, why
					}
				}
			}
			return true, "local copy of a looked-up definition"
		}
	case *ssa.Parameter:
		// every call site must pass a looked-up or declared variable
		callee := x.Parent()
		idx := -1
		for i, p := range callee.Params {
			if p == x {
				idx = i
			}
		}
		cnt := 0
		for _, caller := range w.Funcs("parser") {
			for _, b := range caller.Blocks {
				for _, ins := range b.Instrs {
					if c, ok := ins.(*ssa.Call); ok && c.Call.StaticCallee() == callee && idx < len(c.Call.Args) {
						cnt++
						if ok, why := identOrigin(w, cf, caller, c.Call.Args[idx], depth+1, seen); !ok {
							return false, "call site in " + FuncName(caller) + ": " + why
						}
					}
				}
			}
		}
		return true, fmt.Sprintf("parameter: looked-up / declared at all %d call sites", cnt)
	}
	return false, fmt.Sprintf("cannot show that the stored variable is the looked-up definition (%T)", v)
}

// c07Predicate: what Public() reports is the result of one predicate over the definition's
// source name, and that predicate is "the first character is an upper-case letter":
// every return is the constant false (empty name) or the un-negated result of
// unicode.IsUpper applied to the first rune of the name.
func c07Predicate(w *World, r *Result, rule string) {
	fns := w.Funcs("parser")
	// fields returned by methods called Public
	fields := map[*types.Var]string{}
	for _, fn := range fns {
		if fn.Name() != "Public" || fn.Signature.Recv() == nil || len(fn.Blocks) == 0 {
			continue
		}
		// visibility is a stored fact of the definition, decided once from the name as written:
		// the accessor hands that fact out and computes nothing (the stored name carries the
		// prefix of its file and is not the name that was written)
		if fn.Synthetic == "" {
			key := "public:accessor:" + FuncName(fn)
			readsEmittedName := false
			if !pureAccessorFn(fn) {
				// which fields it looks at, and which field the emitted name (Name()) is
				nameField := -1
				for _, f2 := range fns {
					if f2.Name() == "Name" && f2.Signature.Recv() != nil && types.Identical(f2.Signature.Recv().Type(), fn.Signature.Recv().Type()) && len(f2.Blocks) == 1 {
						for _, ins := range f2.Blocks[0].Instrs {
							switch y := ins.(type) {
							case *ssa.Field:
								nameField = y.Field
							case *ssa.FieldAddr:
								nameField = y.Field
							}
						}
					}
				}
				for _, b := range fn.Blocks {
					for _, ins := range b.Instrs {
						switch y := ins.(type) {
						case *ssa.Field:
							if y.Field == nameField {
								readsEmittedName = true
							}
						case *ssa.FieldAddr:
							if y.Field == nameField {
								readsEmittedName = true
							}
						}
					}
				}
			}
			if pureAccessorFn(fn) {
				r.Ok(rule, key, w.Pos(fn.Pos()), "hands out the stored visibility flag")
			} else if !readsEmittedName {
				r.Ok(rule, key, w.Pos(fn.Pos()), "computed from a field other than the emitted name")
			} else {
				r.Bad(rule, key, w.Pos(fn.Pos()), FuncName(fn)+" computes the visibility when asked instead of handing out a stored flag: what it can look at then is the stored (prefixed) name, not the name as it was written")
			}
		}
		for _, b := range fn.Blocks {
			ret, ok := b.Instrs[len(b.Instrs)-1].(*ssa.Return)
			if !ok || len(ret.Results) != 1 {
				continue
			}
			switch x := ret.Results[0].(type) {
			case *ssa.Field:
				if st, ok := x.X.Type().Underlying().(*types.Struct); ok {
					fields[st.Field(x.Field)] = FuncName(fn)
				}
			case *ssa.UnOp:
				if fa, ok := x.X.(*ssa.FieldAddr); ok {
					if pt, ok := fa.X.Type().Underlying().(*types.Pointer); ok {
						if st, ok := pt.Elem().Underlying().(*types.Struct); ok {
							fields[st.Field(fa.Field)] = FuncName(fn)
						}
					}
				}
			}
		}
	}
	if len(fields) == 0 {
		r.Bad(rule, "public:predicate:fields", "-", "no Public() accessor returning a field found in the parser")
		return
	}
	preds := map[*ssa.Function][]string{}
	var unknown []string
	var trace func(v ssa.Value, site string, depth int)
	trace = func(v ssa.Value, site string, depth int) {
		if depth > 4 {
			unknown = append(unknown, site)
			return
		}
		switch x := v.(type) {
		case *ssa.Const:
		case *ssa.Phi:
			for _, e := range x.Edges {
				trace(e, site, depth+1)
			}
		case *ssa.Parameter:
			idx := -1
			for i, p := range x.Parent().Params {
				if p == x {
					idx = i
				}
			}
			for _, fn := range fns {
				for _, b := range fn.Blocks {
					for _, ins := range b.Instrs {
						if c, ok := ins.(ssa.CallInstruction); ok && c.Common().StaticCallee() == x.Parent() && idx < len(c.Common().Args) {
							trace(c.Common().Args[idx], w.Pos(c.Pos()), depth+1)
						}
					}
				}
			}
		case *ssa.Call:
			callee := x.Call.StaticCallee()
			if callee != nil && callee.Name() == "Public" {
				return // copied from another definition
			}
			if callee != nil && len(callee.Blocks) > 0 && w.IsProduct(pkgOf(callee)) {
				preds[callee] = append(preds[callee], site)
				return
			}
			unknown = append(unknown, site)
		case *ssa.Field, *ssa.UnOp:
			// copy of a definition's flag
		default:
			unknown = append(unknown, site)
		}
	}
	for _, fn := range fns {
		for _, b := range fn.Blocks {
			for _, ins := range b.Instrs {
				st, ok := ins.(*ssa.Store)
				if !ok {
					continue
				}
				fa, ok := st.Addr.(*ssa.FieldAddr)
				if !ok {
					continue
				}
				pt, ok := fa.X.Type().Underlying().(*types.Pointer)
				if !ok {
					continue
				}
				stt, ok := pt.Elem().Underlying().(*types.Struct)
				if !ok {
					continue
				}
				if _, ok := fields[stt.Field(fa.Field)]; ok {
					trace(st.Val, w.Pos(st.Pos()), 0)
				}
			}
		}
	}
	for _, u := range uniq(unknown) {
		r.Bad(rule, "public:predicate:source@"+u, u, "the public flag of a definition is set from a value that is neither a constant, a copy of another definition's flag nor the result of the name predicate")
	}
	if len(preds) == 0 {
		r.Bad(rule, "public:predicate:none", "-", "no predicate over the name feeds the public flag")
	}
	for p, sites := range preds {
		key := "public:predicate:" + FuncName(p)
		pos := w.Pos(p.Pos())
		var bad []string
		nUpper := 0
		for _, b := range p.Blocks {
			ret, ok := b.Instrs[len(b.Instrs)-1].(*ssa.Return)
			if !ok || len(ret.Results) != 1 {
				continue
			}
			switch x := ret.Results[0].(type) {
			case *ssa.Const:
				if x.Value != nil && x.Value.String() == "true" {
					bad = append(bad, "returns the constant true")
				}
			case *ssa.Call:
				callee := x.Call.StaticCallee()
				if callee == nil || callee.Pkg == nil || callee.Pkg.Pkg.Path() != "unicode" || callee.Name() != "IsUpper" || len(x.Call.Args) != 1 {
					bad = append(bad, "returns the result of "+x.Call.String()+" instead of unicode.IsUpper on the first rune")
					continue
				}
				if !firstRuneOfParam(x.Call.Args[0], p) {
					bad = append(bad, "unicode.IsUpper is applied to "+x.Call.Args[0].String()+", which is not the first rune of the name")
					continue
				}
				nUpper++
			default:
				bad = append(bad, fmt.Sprintf("returns %s (%T): not the un-negated result of unicode.IsUpper on the first rune", ret.Results[0].String(), ret.Results[0]))
			}
		}
		if nUpper == 0 && len(bad) == 0 {
			bad = append(bad, "never returns unicode.IsUpper of the first rune")
		}
		if len(bad) == 0 {
			r.Ok(rule, key, pos, fmt.Sprintf("public iff the first rune of the name is upper case (false for the empty name); feeds the flag at %s", strings.Join(uniq(sites), ", ")))
		} else {
			r.Bad(rule, key, pos, "the visibility predicate "+FuncName(p)+" "+strings.Join(bad, "; ")+": names that do not start with an upper-case letter (_x, digits, caseless scripts) become importable, or upper-case ones stop being so")
		}
	}
}

// firstRuneOfParam: v is []rune(param)[0] or the rune result of utf8.DecodeRuneInString(param).
func firstRuneOfParam(v ssa.Value, fn *ssa.Function) bool {
	isParam := func(x ssa.Value) bool {
		p, ok := x.(*ssa.Parameter)
		return ok && p.Parent() == fn
	}
	switch x := v.(type) {
	case *ssa.UnOp:
		ia, ok := x.X.(*ssa.IndexAddr)
		if !ok {
			return false
		}
		k, ok := ia.Index.(*ssa.Const)
		if !ok || k.Value == nil || k.Int64() != 0 {
			return false
		}
		cv, ok := ia.X.(*ssa.Convert)
		return ok && isParam(cv.X)
	case *ssa.Extract:
		c, ok := x.Tuple.(*ssa.Call)
		if !ok || x.Index != 0 {
			return false
		}
		callee := c.Call.StaticCallee()
		return callee != nil && callee.Pkg != nil && callee.Pkg.Pkg.Path() == "unicode/utf8" && callee.Name() == "DecodeRuneInString" && len(c.Call.Args) == 1 && isParam(c.Call.Args[0])
	}
	return false
}

// finalReturnEscapes: in the block callbacks of fn, is a success result reachable when the
// function has results and the body is finished, without the edge on which the last
// statement's tag equals RETURN?
// blockCallbacksOf: the functions fn hands over as end-of-block callbacks (func([]Statement,
// bool) error): closures written in fn, or closures made by a function fn calls for it.
func blockCallbacksOf(fn *ssa.Function) []*ssa.Function {
	isCb := func(t types.Type) bool {
		sig, ok := t.Underlying().(*types.Signature)
		if !ok || sig.Params().Len() != 2 || sig.Results().Len() != 1 || !isErrorType(sig.Results().At(0).Type()) {
			return false
		}
		sl, ok := sig.Params().At(0).Type().Underlying().(*types.Slice)
		return ok && namedName(sl.Elem()) == "Statement" && isBool(sig.Params().At(1).Type())
	}
	seen := map[*ssa.Function]bool{}
	var out []*ssa.Function
	var add func(f *ssa.Function)
	add = func(f *ssa.Function) {
		if f != nil && !seen[f] {
			seen[f] = true
			out = append(out, f)
			// a bound method (body.check handed over as the callback): the method itself
			if f.Synthetic != "" {
				for _, b := range f.Blocks {
					for _, ins := range b.Instrs {
						if c, ok := ins.(*ssa.Call); ok {
							add(c.Call.StaticCallee())
						}
					}
				}
			}
		}
	}
	var resolve func(v ssa.Value, d int)
	resolve = func(v ssa.Value, d int) {
		if d > 3 {
			return
		}
		switch x := v.(type) {
		case *ssa.MakeClosure:
			f, _ := x.Fn.(*ssa.Function)
			add(f)
		case *ssa.Function:
			add(x)
		case *ssa.ChangeType:
			resolve(x.X, d+1)
		case *ssa.Call:
			if callee := x.Call.StaticCallee(); callee != nil && callee.Blocks != nil {
				for _, b := range callee.Blocks {
					if ret, ok := b.Instrs[len(b.Instrs)-1].(*ssa.Return); ok && len(ret.Results) == 1 {
						resolve(ret.Results[0], d+1)
					}
				}
			}
		case *ssa.Phi:
			for _, e := range x.Edges {
				resolve(e, d+1)
			}
		}
	}
	for _, b := range fn.Blocks {
		for _, ins := range b.Instrs {
			c, ok := ins.(*ssa.Call)
			if !ok {
				continue
			}
			for _, a := range c.Call.Args {
				if isCb(a.Type()) {
					resolve(a, 0)
				}
			}
		}
	}
	for _, a := range fn.AnonFuncs {
		add(a)
	}
	return out
}

func finalReturnEscapes(fn *ssa.Function, retTag string) string {
	for _, a := range blockCallbacksOf(fn) {
		cut := map[[2]*ssa.BasicBlock]bool{}
		tested := false
		for _, b := range a.Blocks {
			c, neg := condOf(b)
			if c == nil {
				continue
			}
			t, f := b.Succs[0], b.Succs[1]
			if neg {
				t, f = f, t
			}
			switch x := c.(type) {
			case *ssa.Parameter:
				if isBool(x.Type()) {
					cut[[2]*ssa.BasicBlock{b, f}] = true // not the finished body
				}
			case *ssa.Phi:
				// ok := last != nil && last.StatementType() == RETURN, tested later
				isConj := false
				for _, e := range x.Edges {
					if bo, ok := e.(*ssa.BinOp); ok && bo.Op == token.EQL {
						for _, side := range []ssa.Value{bo.X, bo.Y} {
							if k, ok := side.(*ssa.Const); ok && k.Value != nil && k.Value.Kind() == constant.String && constant.StringVal(k.Value) == retTag && isNamed(k.Type(), "StatementType") {
								isConj = true
							}
						}
						continue
					}
					if k, ok := e.(*ssa.Const); !ok || k.Value == nil || k.Value.Kind() != constant.Bool || constant.BoolVal(k.Value) {
						isConj = false
						break
					}
				}
				if isConj {
					tested = true
					cut[[2]*ssa.BasicBlock{b, t}] = true
				}
			case *ssa.BinOp:
				// len(results) > 0 / != 0 / == 0
				if lc, ok := x.X.(*ssa.Call); ok {
					if bi, ok := lc.Call.Value.(*ssa.Builtin); ok && bi.Name() == "len" {
						if k, ok := x.Y.(*ssa.Const); ok && k.Value != nil && k.Int64() == 0 {
							if sl, ok := lc.Call.Args[0].Type().Underlying().(*types.Slice); ok && isNamed(sl.Elem(), "ValueType") {
								switch x.Op {
								case token.GTR, token.NEQ:
									cut[[2]*ssa.BasicBlock{b, f}] = true
								case token.EQL, token.LEQ:
									cut[[2]*ssa.BasicBlock{b, t}] = true
								}
							}
						}
					}
				}
				for _, side := range []ssa.Value{x.X, x.Y} {
					if k, ok := side.(*ssa.Const); ok && k.Value != nil && k.Value.Kind() == constant.String && constant.StringVal(k.Value) == retTag && isNamed(k.Type(), "StatementType") {
						tested = true
						switch x.Op {
						case token.EQL:
							cut[[2]*ssa.BasicBlock{b, t}] = true
						case token.NEQ:
							cut[[2]*ssa.BasicBlock{b, f}] = true
						}
					}
				}
			}
		}
		if !tested {
			continue
		}
		// success points: return blocks (or phi predecessors) whose error result is nil
		var check func(v ssa.Value, blk *ssa.BasicBlock, depth int) string
		check = func(v ssa.Value, blk *ssa.BasicBlock, depth int) string {
			if depth > 4 {
				return ""
			}
			switch x := v.(type) {
			case *ssa.Const:
				if x.IsNil() && (blk == a.Blocks[0] || reachableFromWithout(a.Blocks[0], cut, blk)) {
					return "the block callback of " + FuncName(fn) + " can report success for the finished body of a function with results without testing that its last statement is a return (an empty or comment-only body skips the test): the function falls off its end and the caller reads a stale result"
				}
			case *ssa.Phi:
				for i, e := range x.Edges {
					pred := x.Block().Preds[i]
					if cut[[2]*ssa.BasicBlock{pred, x.Block()}] {
						continue
					}
					if why := check(e, pred, depth+1); why != "" {
						return why
					}
				}
			}
			return ""
		}
		for _, b := range a.Blocks {
			ret, ok := b.Instrs[len(b.Instrs)-1].(*ssa.Return)
			if !ok || len(ret.Results) == 0 {
				continue
			}
			if why := check(ret.Results[len(ret.Results)-1], b, 0); why != "" {
				return why
			}
		}
	}
	return ""
}

// c07HeaderOrder: a construct that introduces variables of its own (loop variables made
// with the Variable constructor in the parse function itself) declares them only after
// every expression of its header has been parsed: no expression-parsing call of that
// function can run after such a declaration (the body is parsed as a block, which is
// allowed). Otherwise `for i := range s[i:]` sees its own counter.
func c07HeaderOrder(w *World, cf *ctxFacts, r *Result, rule string) {
	ppkg := w.Pkgs["parser"].Types
	isExprParser := func(callee *ssa.Function) bool {
		if callee == nil || pkgOf(callee) != ppkg || callee.Signature.Results().Len() < 1 {
			return false
		}
		return isNamed(callee.Signature.Results().At(0).Type(), "Expression")
	}
	// values built by the Variable constructor in this function
	n := 0
	for _, fn := range w.Funcs("parser") {
		var decls []*ssa.Call
		for _, m := range cf.mutations(fn) {
			c, ok := m.ins.(*ssa.Call)
			if !ok {
				continue
			}
			made := false
			for _, a := range c.Call.Args {
				vals := []ssa.Value{a}
				vals = append(vals, variadicElems(a)...)
				for _, v := range vals {
					if vc, ok := v.(*ssa.Call); ok {
						if callee := vc.Call.StaticCallee(); callee != nil && pkgOf(callee) == ppkg && isNamed(callee.Signature.Results().At(0).Type(), "Variable") && vc.Parent() == fn {
							made = true
						}
					}
				}
			}
			if made {
				decls = append(decls, c)
			}
		}
		if len(decls) == 0 {
			continue
		}
		perFn := 0
		for _, d := range decls {
			perFn++
			n++
			key := fmt.Sprintf("header:%s#%d", FuncName(fn), perFn)
			late := ""
			for _, b := range fn.Blocks {
				for i, ins := range b.Instrs {
					p, ok := ins.(*ssa.Call)
					if !ok || !isExprParser(p.Call.StaticCallee()) {
						continue
					}
					// can p run after d?
					after := false
					if b == d.Block() {
						for j, x := range b.Instrs {
							if x == d {
								after = i > j
							}
						}
					} else if d.Block().Dominates(b) || reachableFromWithout(d.Block(), nil, b) {
						after = true
					}
					if after {
						late = fmt.Sprintf("%s at %s", p.Call.StaticCallee().Name(), w.Pos(p.Pos()))
					}
				}
			}
			if late == "" {
				r.Ok(rule, key, w.Pos(d.Pos()), "the construct's own variable is declared after the last expression of its header was parsed")
			} else {
				r.Bad(rule, key, w.Pos(d.Pos()), "the construct declares its own variable and parses a header expression afterwards ("+late+"): the expression can refer to the variable it helps to define (for i := range s[i:])")
			}
		}
	}
	if n == 0 {
		r.Bad(rule, "header:none", "-", "no construct declaring variables of its own found")
	}
}

// c09MergeComplete: where a parser takes over the call edges of the parser it created for an
// imported file, it visits every key of that parser's call-edge map, and for every key
// either stores the entry under the same key or walks the entry's elements (to add the
// missing ones): no key is filtered out, and the map is not copied wholesale (which would
// replace the entry of a key both parsers have, e.g. the top-level key).
func c09MergeComplete(w *World, r *Result, rule string) {
	n := 0
	for _, fn := range w.Funcs("parser") {
		// parsers created here
		for _, b := range fn.Blocks {
			for _, ins := range b.Instrs {
				if len(fn.Params) == 0 {
					continue
				}
				recvPtr, ok := fn.Params[0].Type().Underlying().(*types.Pointer)
				if !ok {
					continue
				}
				// the created parser: a pointer result, a value stored into a local variable, or a
				// literal of the parser type
				anchor, mkPos := createdParser(w, fn, ins)
				if anchor == nil {
					continue
				}
				st, ok := recvPtr.Elem().Underlying().(*types.Struct)
				if !ok {
					continue
				}
				// the call edges kept in an object that the created parser shares by reference with
				// its creator: nothing has to be merged
				for fi := 0; fi < st.NumFields(); fi++ {
					pt, ok := st.Field(fi).Type().Underlying().(*types.Pointer)
					if !ok {
						continue
					}
					ost, ok := pt.Elem().Underlying().(*types.Struct)
					if !ok {
						continue
					}
					hasEdges := false
					for oi := 0; oi < ost.NumFields(); oi++ {
						if mt, ok := ost.Field(oi).Type().Underlying().(*types.Map); ok && isString(mt.Key()) {
							if sl, ok := mt.Elem().Underlying().(*types.Slice); ok && isString(sl.Elem()) {
								hasEdges = true
							}
							if inner, ok := mt.Elem().Underlying().(*types.Map); ok && isString(inner.Key()) {
								hasEdges = true
							}
						}
					}
					if !hasEdges {
						continue
					}
					sharedRef := false
					for _, b2 := range fn.Blocks {
						for _, i2 := range b2.Instrs {
							st2, ok := i2.(*ssa.Store)
							if !ok {
								continue
							}
							fa, ok := st2.Addr.(*ssa.FieldAddr)
							if !ok || fa.X != anchor || fa.Field != fi {
								continue
							}
							if u, ok := st2.Val.(*ssa.UnOp); ok {
								if f2, ok := u.X.(*ssa.FieldAddr); ok && f2.X == ssa.Value(fn.Params[0]) && f2.Field == fi {
									sharedRef = true
								}
							}
						}
					}
					n++
					key := fmt.Sprintf("mergeall:%s:%s", FuncName(fn), st.Field(fi).Name())
					if sharedRef {
						r.Ok(rule, key, w.Pos(mkPos), "the call edges are kept in an object the parser of the imported file shares by reference with its creator: there is nothing to merge")
					} else {
						r.Bad(rule, key, w.Pos(mkPos), "the call edges are kept in an object of their own, and the parser of the imported file gets another one: the calls made inside the imported file never reach the importer, and its functions are removed as unused")
					}
				}
				for fi := 0; fi < st.NumFields(); fi++ {
					mt, ok := st.Field(fi).Type().Underlying().(*types.Map)
					if !ok || !isString(mt.Key()) {
						continue
					}
					// the call edges: per caller a list of callee names, or a set of them
					isEdges := false
					if sl, ok := mt.Elem().Underlying().(*types.Slice); ok && isString(sl.Elem()) {
						isEdges = true
					}
					if inner, ok := mt.Elem().Underlying().(*types.Map); ok && isString(inner.Key()) {
						if est, ok := inner.Elem().Underlying().(*types.Struct); ok && est.NumFields() == 0 {
							isEdges = true
						}
					}
					if !isEdges {
						continue
					}
					n++
					key := fmt.Sprintf("mergeall:%s:%s", FuncName(fn), st.Field(fi).Name())
					pos := w.Pos(mkPos)
					// wholesale copies into the receiver's map
					whole := ""
					var rng *ssa.Range
					for _, b2 := range fn.Blocks {
						for _, i2 := range b2.Instrs {
							switch x := i2.(type) {
							case *ssa.Call:
								if c2 := x.Call.StaticCallee(); c2 != nil && (strings.HasPrefix(c2.String(), "maps.Copy") || strings.HasPrefix(c2.String(), "maps.Insert")) {
									for _, a := range x.Call.Args {
										if u, ok := a.(*ssa.UnOp); ok {
											if fa, ok := u.X.(*ssa.FieldAddr); ok && fa.Field == fi && fa.X != anchor {
												whole = c2.Name() + " at " + w.Pos(x.Pos())
											}
										}
									}
								}
							case *ssa.Range:
								if u, ok := x.X.(*ssa.UnOp); ok {
									if fa, ok := u.X.(*ssa.FieldAddr); ok && fa.Field == fi && fa.X == anchor {
										rng = x
									}
								}
							}
						}
					}
					if whole != "" {
						r.Bad(rule, key, pos, "the call edges of the imported file are copied wholesale ("+whole+"): the entry of a key both parsers have (the top-level key \"\") is replaced instead of merged, so calls made by the top-level code of an earlier import are forgotten and their functions removed as unused")
						continue
					}
					loopFn := fn
					isDst := func(m ssa.Value) bool {
						if u, ok := m.(*ssa.UnOp); ok {
							if fa, ok := u.X.(*ssa.FieldAddr); ok && fa.Field == fi && fa.X != anchor {
								return true
							}
						}
						return false
					}
					if rng == nil {
						// the merge may live in a helper that receives both maps
						for _, b2 := range fn.Blocks {
							for _, i2 := range b2.Instrs {
								c2, ok := i2.(*ssa.Call)
								if !ok {
									continue
								}
								callee2 := c2.Call.StaticCallee()
								if callee2 == nil || len(callee2.Blocks) == 0 || pkgOf(callee2) != w.Pkgs["parser"].Types {
									continue
								}
								srcIdx, dstIdx, ownerIdx := -1, -1, -1
								for ai, a := range c2.Call.Args {
									if u, ok := a.(*ssa.UnOp); ok {
										if fa, ok := u.X.(*ssa.FieldAddr); ok && fa.Field == fi {
											if fa.X == anchor {
												srcIdx = ai
											} else {
												dstIdx = ai
											}
										}
									}
									// the destination handed over as its owner (method of the importing parser)
									if a != anchor && types.Identical(a.Type(), fn.Params[0].Type()) {
										ownerIdx = ai
									}
								}
								if srcIdx < 0 || (dstIdx < 0 && ownerIdx < 0) || srcIdx >= len(callee2.Params) || dstIdx >= len(callee2.Params) || ownerIdx >= len(callee2.Params) {
									continue
								}
								srcP := callee2.Params[srcIdx]
								var dstIs func(m ssa.Value) bool
								if dstIdx >= 0 {
									dstP := callee2.Params[dstIdx]
									dstIs = func(m ssa.Value) bool { return m == ssa.Value(dstP) }
								} else {
									ownerP := callee2.Params[ownerIdx]
									dstIs = func(m ssa.Value) bool {
										if u, ok := m.(*ssa.UnOp); ok {
											if fa, ok := u.X.(*ssa.FieldAddr); ok && fa.Field == fi && fa.X == ssa.Value(ownerP) {
												return true
											}
										}
										return false
									}
								}
								for _, b3 := range callee2.Blocks {
									for _, i3 := range b3.Instrs {
										if x, ok := i3.(*ssa.Range); ok && x.X == srcP {
											rng = x
											loopFn = callee2
											isDst = dstIs
										}
									}
								}
							}
						}
					}
					if rng == nil {
						r.Bad(rule, key, pos, "the call edges recorded by the parser of the imported file are never taken over")
						continue
					}
					_ = loopFn
					// the loop: header = block of the Next instruction
					var next *ssa.Next
					for _, ref := range *rng.Referrers() {
						if nx, ok := ref.(*ssa.Next); ok {
							next = nx
						}
					}
					if next == nil {
						r.Bad(rule, key, pos, "cannot follow the iteration over the imported call edges")
						continue
					}
					hdr := next.Block()
					body := loopBody(hdr)
					var keyVal, elemVal ssa.Value
					for _, ref := range *next.Referrers() {
						if ex, ok := ref.(*ssa.Extract); ok {
							if ex.Index == 1 {
								keyVal = ex
							}
							if ex.Index == 2 {
								elemVal = ex
							}
						}
					}
					cut := map[[2]*ssa.BasicBlock]bool{}
					for blk := range body {
						handled := false
						for _, i2 := range blk.Instrs {
							switch x := i2.(type) {
							case *ssa.MapUpdate:
								if isDst(x.Map) && x.Key == keyVal {
									handled = true
								}
							case *ssa.Range:
								// the entry's elements are walked (range over a set)
								if x.X == elemVal && elemVal != nil {
									handled = true
								}
							case *ssa.Call:
								// the entry's elements are walked (range over the slice: len(elem) in the inner header)
								if bi, ok := x.Call.Value.(*ssa.Builtin); ok && bi.Name() == "len" && len(x.Call.Args) == 1 && x.Call.Args[0] == elemVal && elemVal != nil {
									handled = true
								}
								// the key is handed to a helper that stores the destination's entry for it on all its paths
								if h := x.Call.StaticCallee(); h != nil && h.Blocks != nil && w.IsProduct(pkgOf(h)) {
									for _, hb := range h.Blocks {
										for _, hi := range hb.Instrs {
											mu, ok := hi.(*ssa.MapUpdate)
											if !ok || !dominatesReturns(h, hb) || argForParam(h, mu.Key, x) != keyVal || keyVal == nil {
												continue
											}
											// the map stored into: the destination passed as argument, or the same field of the owner passed as argument
											if a := argForParam(h, mu.Map, x); a != nil && isDst(a) {
												handled = true
											}
											if u, ok := mu.Map.(*ssa.UnOp); ok {
												if fa, ok := u.X.(*ssa.FieldAddr); ok && fa.Field == fi {
													if a := argForParam(h, fa.X, x); a != nil && a != anchor && types.Identical(a.Type(), fn.Params[0].Type()) {
														handled = true
													}
												}
											}
										}
									}
								}
							}
						}
						for _, sc := range blk.Succs {
							if handled || !body[sc] {
								cut[[2]*ssa.BasicBlock{blk, sc}] = true
							}
						}
					}
					skipped := false
					for _, sc := range hdr.Succs {
						if body[sc] && sc != hdr && !cut[[2]*ssa.BasicBlock{hdr, sc}] && reachableFromWithout(sc, cut, hdr) {
							skipped = true
						}
					}
					if skipped {
						r.Bad(rule, key, pos, "some keys of the imported file's call edges are passed over (a path through the merge loop neither stores the entry nor walks its elements): edges of files imported by the imported file never reach the root, and functions they lead to are removed as unused")
					} else {
						r.Ok(rule, key, pos, "every key of the imported parser's call edges is stored or merged element by element under the same key")
					}
				}
			}
		}
	}
	if n == 0 {
		r.Bad(rule, "mergeall:none", "-", "no place found where a parser for an imported file is created")
	}
}

// c09PrefixApplied: a file-level definition is stored under the file's prefix whenever the
// definition is global: where the stored name of a new variable is a choice between the
// raw name and the prefixed name, the choice is controlled by the very value that is passed
// on as the definition's "global" flag – not by a narrower condition (public only), which
// would leave private globals of an imported file unprefixed, i.e. in the importer's
// name space.
func c09PrefixApplied(w *World, r *Result, rule string) {
	ppkg := w.Pkgs["parser"].Types
	var cfG *ssa.Function
	if cf, err := buildCtxFacts(w); err == nil {
		cfG = cf.globalQ
	}
	n := 0
	for _, fn := range w.Funcs("parser") {
		perFn := 0
		for _, b := range fn.Blocks {
			for _, ins := range b.Instrs {
				c, ok := ins.(*ssa.Call)
				if !ok {
					continue
				}
				callee := c.Call.StaticCallee()
				if callee == nil || pkgOf(callee) != ppkg || callee.Signature.Recv() != nil || callee.Signature.Results().Len() != 1 || !isNamed(callee.Signature.Results().At(0).Type(), "Variable") {
					continue
				}
				// name argument that is a choice between raw and prefixed
				var namePhi *ssa.Phi
				for _, a := range c.Call.Args {
					if ph, ok := a.(*ssa.Phi); ok && isString(ph.Type()) {
						for _, e := range ph.Edges {
							if pc, ok := e.(*ssa.Call); ok && pc.Call.StaticCallee() != nil && pkgOf(pc.Call.StaticCallee()) == ppkg && len(pc.Call.Args) == 2 && isString(pc.Type()) {
								namePhi = ph
							}
						}
					}
				}
				if namePhi == nil {
					continue
				}
				// the bool arguments handed to the constructor
				var flags []ssa.Value
				for _, a := range c.Call.Args {
					if isBool(a.Type()) {
						flags = append(flags, a)
					}
				}
				n++
				perFn++
				key := fmt.Sprintf("prefix:applied:%s#%d", FuncName(fn), perFn)
				// the condition selecting the prefixed edge
				var cond ssa.Value
				for i, e := range namePhi.Edges {
					if _, isCall := e.(*ssa.Call); !isCall {
						continue
					}
					pred := namePhi.Block().Preds[i]
					for d := pred; d != nil; d = d.Idom() {
						p := d.Idom()
						if p == nil {
							break
						}
						cc, _ := condOf(p)
						if cc != nil && ((p.Succs[0].Dominates(pred) && len(p.Succs[0].Preds) == 1) || p.Succs[0] == pred) && !namePhi.Block().Dominates(p) && p.Dominates(namePhi.Block()) {
							cond = cc
							break
						}
					}
				}
				// the flag that says "defined at file level": the result of the context's global-scope query
				same := false
				for _, f := range flags {
					if fc, ok := f.(*ssa.Call); ok && cfG != nil && fc.Call.StaticCallee() == cfG && f == cond {
						same = true
					}
				}
				switch {
				case cond == nil:
					r.Bad(rule, key, w.Pos(c.Pos()), "cannot find the condition under which the new variable's name receives the file prefix")
				case !same:
					r.Bad(rule, key, w.Pos(c.Pos()), "the file prefix is applied under a condition ("+cond.String()+") that is not the global flag stored in the variable: some file-level variables (e.g. the private ones) keep their bare name and share the importer's name space")
				default:
					r.Ok(rule, key, w.Pos(c.Pos()), "the stored name carries the file prefix exactly when the variable is stored as global")
				}
			}
		}
	}
	if n == 0 {
		r.Bad(rule, "prefix:applied:none", "-", "no variable definition with an optional file prefix found")
	}
}

// c09Keys: writer/reader agreement of the keys of the context's definition tables. Where
// every store into a table of the parsing context uses a key produced by the key builder
// (the function that puts the file's namespace prefix in front of a global name), every
// lookup in that table must use a key produced by the same builder: a lookup under the raw
// spelling finds whatever another file stored under it — alias.Func() would resolve to the
// importing file's own Func, and an unknown alias or a private name would be accepted.
func c09Keys(w *World, cf *ctxFacts, r *Result, rule string) {
	type access struct {
		fn  *ssa.Function
		ins ssa.Instruction
		key ssa.Value
	}
	stores := map[int][]access{}
	lookups := map[int][]access{}
	fieldOf := func(m ssa.Value) (int, bool) {
		switch x := m.(type) {
		case *ssa.UnOp:
			if fa, ok := x.X.(*ssa.FieldAddr); ok {
				if pt, ok := fa.X.Type().Underlying().(*types.Pointer); ok && cf.isCtx(pt.Elem()) {
					return fa.Field, true
				}
			}
		case *ssa.Field:
			if cf.isCtx(x.X.Type()) {
				return x.Field, true
			}
		}
		return 0, false
	}
	for _, fn := range w.Funcs("parser") {
		for _, b := range fn.Blocks {
			for _, ins := range b.Instrs {
				switch x := ins.(type) {
				case *ssa.MapUpdate:
					if f, ok := fieldOf(x.Map); ok {
						stores[f] = append(stores[f], access{fn, x, x.Key})
					}
				case *ssa.Lookup:
					if f, ok := fieldOf(x.X); ok {
						lookups[f] = append(lookups[f], access{fn, x, x.Index})
					}
				}
			}
		}
	}
	// accesses made by a helper (a function or an instance of a generic one) that is handed the table
	type helperAccess struct {
		f   int
		ins ssa.Instruction
	}
	seenHelper := map[helperAccess]bool{}
	for _, fn := range w.Funcs("parser") {
		for _, b := range fn.Blocks {
			for _, ins := range b.Instrs {
				c, ok := ins.(*ssa.Call)
				if !ok {
					continue
				}
				if u, l := cf.tableHelperUse(c); !u && !l {
					continue
				}
				h := c.Call.StaticCallee()
				for i, a := range c.Call.Args {
					if ct, ok := a.(*ssa.ChangeType); ok {
						a = ct.X
					}
					f, ok := fieldOf(a)
					if !ok || i >= len(h.Params) || h.Params[i].Referrers() == nil {
						continue
					}
					for _, rr := range *h.Params[i].Referrers() {
						if seenHelper[helperAccess{f, rr}] {
							continue
						}
						switch y := rr.(type) {
						case *ssa.MapUpdate:
							if y.Map == ssa.Value(h.Params[i]) {
								seenHelper[helperAccess{f, rr}] = true
								stores[f] = append(stores[f], access{h, y, y.Key})
							}
						case *ssa.Lookup:
							if y.X == ssa.Value(h.Params[i]) {
								seenHelper[helperAccess{f, rr}] = true
								lookups[f] = append(lookups[f], access{h, y, y.Index})
							}
						}
					}
				}
			}
		}
	}
	// the builder behind a key: the product function whose string result the key is
	builderOf := func(k ssa.Value) *ssa.Function {
		var find func(v ssa.Value, d int) *ssa.Function
		find = func(v ssa.Value, d int) *ssa.Function {
			if d > 4 {
				return nil
			}
			switch x := v.(type) {
			case *ssa.Extract:
				return find(x.Tuple, d+1)
			case *ssa.Call:
				if callee := x.Call.StaticCallee(); callee != nil && w.IsProduct(pkgOf(callee)) {
					return callee
				}
			case *ssa.Phi:
				var f *ssa.Function
				for _, e := range x.Edges {
					g := find(e, d+1)
					if g == nil || (f != nil && g != f) {
						return nil
					}
					f = g
				}
				return f
			}
			return nil
		}
		return find(k, 0)
	}
	st, _ := cf.ctxType.Underlying().(*types.Struct)
	var fields []int
	for f := range stores {
		fields = append(fields, f)
	}
	sort.Ints(fields)
	n := 0
	// the emitted name of a definition (definition.Name()): already carries its file's prefix
	isDefName := func(k ssa.Value) bool {
		c, ok := k.(*ssa.Call)
		if !ok {
			return false
		}
		if c.Call.IsInvoke() {
			return c.Call.Method.Name() == "Name"
		}
		callee := c.Call.StaticCallee()
		return callee != nil && callee.Name() == "Name" && callee.Signature.Recv() != nil && w.IsProduct(pkgOf(callee))
	}
	for _, f := range fields {
		var kb *ssa.Function
		all := true
		for _, s := range stores[f] {
			if isDefName(s.key) {
				continue
			}
			g := builderOf(s.key)
			if g == nil || (kb != nil && g != kb) {
				all = false
			}
			kb = g
		}
		if !all || kb == nil {
			continue // the table is keyed by raw spellings (aliases)
		}
		fname := fmt.Sprint(f)
		if st != nil && f < st.NumFields() {
			fname = st.Field(f).Name()
		}
		for i, l := range lookups[f] {
			n++
			key := fmt.Sprintf("keys:%s:%s#%d", fname, FuncName(l.fn), i+1)
			if g := builderOf(l.key); g == kb {
				r.Ok(rule, key, w.Pos(l.ins.Pos()), "looked up under a key built by "+kb.Name()+", as every store into the table")
			} else if isDefName(l.key) {
				r.Ok(rule, key, w.Pos(l.ins.Pos()), "looked up under the emitted name of a definition (which carries its file's prefix)")
			} else {
				r.Bad(rule, key, w.Pos(l.ins.Pos()), fmt.Sprintf("table %s is filled under keys built by %s (file prefix + name) but looked up here under another key (the raw spelling): a definition another file stored under that spelling is found instead — alias.F() resolves to the importing file's own F, unknown aliases and private names are accepted", fname, kb.Name()))
			}
		}
	}
	if n == 0 {
		r.Bad(rule, "keys:none", "-", "no lookup in a context table that is filled under built keys")
	}
}

// NewnessStrictRule: where a context lookup serves as a "the name must be new" test (its
// found-branch can end in an error return), the found-branch ends in an error return on
// EVERY path: a further condition on the found definition (same kind, same scope class …)
// lets some redeclarations through, and the two variables then share one shell name.
func NewnessStrictRule(w *World, cf *ctxFacts, r *Result, rule string) {
	n := 0
	for _, fn := range w.Funcs("parser") {
		perFn := 0
		for _, b := range fn.Blocks {
			for _, ins := range b.Instrs {
				c, ok := ins.(*ssa.Call)
				if !ok {
					continue
				}
				callee := c.Call.StaticCallee()
				if callee == nil || !cf.lookups[callee] {
					continue
				}
				for _, ref := range *c.Referrers() {
					ex, ok := ref.(*ssa.Extract)
					if !ok || ex.Index != 1 {
						continue
					}
					for _, blk := range fn.Blocks {
						cnd, neg := condOf(blk)
						if cnd != ex {
							continue
						}
						idx := 0
						if neg {
							idx = 1
						}
						found, missing := blk.Succs[idx], blk.Succs[1-idx]
						if _, allMissing := errorPaths(missing, map[*ssa.BasicBlock]bool{}, 0); allMissing {
							continue // a "must exist" test: the name has to be there
						}
						// a site that takes the found definition over into what it builds (a short
						// declaration re-using an existing variable keeps its type) is not a newness test
						adopts := false
						for _, ref2 := range *c.Referrers() {
							if ex0, ok := ref2.(*ssa.Extract); ok && ex0.Index == 0 && flowsIntoConstruction(w, ex0) {
								adopts = true
							}
						}
						if adopts {
							continue
						}
						some, all := errorPaths(found, map[*ssa.BasicBlock]bool{}, 8)
						if !some {
							continue // the found-branch goes on without an error exit close by
						}
						n++
						perFn++
						key := fmt.Sprintf("newness:%s:%s#%d", FuncName(fn), callee.Name(), perFn)
						if all {
							r.Ok(rule, key, w.Pos(c.Pos()), "a name that is found is rejected on every path")
						} else {
							r.Bad(rule, key, w.Pos(c.Pos()), "the name was found, but the rejection depends on a further condition (on some path the found-branch returns without an error): some redeclarations are accepted, and both variables are emitted under one shell name")
						}
					}
				}
			}
		}
	}
	if n == 0 {
		r.Bad(rule, "newness:none", "-", "no lookup used as a newness test found in the parser")
	}
}

// flowsIntoConstruction: the value, or what its accessors yield, becomes an argument of a
// constructing product call (one that does not merely answer a question) or is stored into
// a structure.
func flowsIntoConstruction(w *World, v ssa.Value) bool {
	seen := map[ssa.Value]bool{}
	work := []ssa.Value{v}
	for len(work) > 0 {
		x := work[len(work)-1]
		work = work[:len(work)-1]
		if seen[x] || x.Referrers() == nil {
			continue
		}
		seen[x] = true
		for _, ref := range *x.Referrers() {
			switch y := ref.(type) {
			case *ssa.Call:
				callee := y.Call.StaticCallee()
				if y.Call.IsInvoke() {
					if y.Call.Value == x {
						work = append(work, y)
					}
					continue
				}
				if callee == nil || !w.IsProduct(pkgOf(callee)) {
					continue
				}
				if len(y.Call.Args) > 0 && y.Call.Args[0] == x && callee.Signature.Recv() != nil {
					work = append(work, y) // accessor / method of the value
					continue
				}
				res := callee.Signature.Results()
				if res.Len() == 1 && isBool(res.At(0).Type()) {
					continue // a question about the value
				}
				if res.Len() >= 1 && !isErrorType(res.At(0).Type()) {
					return true
				}
			case *ssa.Phi, *ssa.Extract, *ssa.MakeInterface, *ssa.ChangeType, *ssa.Field:
				work = append(work, y.(ssa.Value))
			case *ssa.Store:
				if y.Val != x {
					continue
				}
				switch a := y.Addr.(type) {
				case *ssa.FieldAddr, *ssa.IndexAddr:
					return true
				case *ssa.Alloc:
					for _, r2 := range *a.Referrers() {
						if u, ok := r2.(*ssa.UnOp); ok {
							work = append(work, u)
						}
						if fa, ok := r2.(*ssa.FieldAddr); ok {
							for _, r3 := range *fa.Referrers() {
								if u, ok := r3.(*ssa.UnOp); ok {
									work = append(work, u)
								}
							}
						}
					}
				}
			}
		}
	}
	return false
}

// errorPaths: (some path from b ends in an error return, every path does).
func errorPaths(b *ssa.BasicBlock, seen map[*ssa.BasicBlock]bool, depth int) (bool, bool) {
	if depth > 12 || seen[b] || len(b.Instrs) == 0 {
		return false, false
	}
	seen[b] = true
	defer delete(seen, b)
	switch l := b.Instrs[len(b.Instrs)-1].(type) {
	case *ssa.Return:
		e := isErrorReturn(l)
		return e, e
	case *ssa.Panic:
		return true, true
	}
	some, all := false, true
	if len(b.Succs) == 0 {
		return false, false
	}
	for _, sc := range b.Succs {
		s, a := errorPaths(sc, seen, depth+1)
		some = some || s
		all = all && a
	}
	return some, all
}

// c09Once: a file reached along several import paths (or under several aliases) is part of
// the program once.  Structural necessary conditions, in the function that creates the
// parser of an imported file: (shared) a map field of the importing parser is handed to the
// created parser by reference, so that nested imports see the same set; (tested) that set
// is consulted under a key taken from the created parser / the imported path and the answer
// is used; (recorded) the key is entered into the set.  Without them the statements of a
// file imported by two files are emitted twice: its top-level code runs twice and its
// private globals are re-initialised between the importers.
func c09Once(w *World, r *Result, rule string) {
	n := 0
	for _, fn := range w.Funcs("parser") {
		if len(fn.Params) == 0 {
			continue
		}
		recvPtr, ok := fn.Params[0].Type().Underlying().(*types.Pointer)
		if !ok {
			continue
		}
		_ = recvPtr
		for _, b := range fn.Blocks {
			for _, ins := range b.Instrs {
				anchor, mkPos := createdParser(w, fn, ins)
				if anchor == nil {
					continue
				}
				n++
				pos := w.Pos(mkPos)
				key := "once:" + FuncName(fn)
				// (shared) anchor.F = p.F for a map field F, or for a pointer to a bookkeeping object
				// whose methods consult and update a map of their receiver
				shared := map[int]bool{}
				sharedObj := map[int]bool{}
				for _, b2 := range fn.Blocks {
					for _, i2 := range b2.Instrs {
						st, ok := i2.(*ssa.Store)
						if !ok {
							continue
						}
						fa, ok := st.Addr.(*ssa.FieldAddr)
						if !ok || fa.X != anchor {
							continue
						}
						_, isMap := st.Val.Type().Underlying().(*types.Map)
						isObj := false
						if pt, ok := st.Val.Type().Underlying().(*types.Pointer); ok {
							_, isObj = pt.Elem().Underlying().(*types.Struct)
						}
						if !isMap && !isObj {
							continue
						}
						if u, ok := st.Val.(*ssa.UnOp); ok {
							if f2, ok := u.X.(*ssa.FieldAddr); ok && f2.X == ssa.Value(fn.Params[0]) && f2.Field == fa.Field {
								shared[fa.Field] = true
								if isObj {
									sharedObj[fa.Field] = true
								}
							}
						}
					}
				}
				// keys taken from the created parser or from a path
				fromImport := func(k ssa.Value) bool {
					src := newSrcSet()
					backward(k, src, map[ssa.Value]bool{})
					seen := map[ssa.Value]bool{}
					var dep func(v ssa.Value, d int) bool
					dep = func(v ssa.Value, d int) bool {
						if v == nil || d > 6 || seen[v] {
							return false
						}
						seen[v] = true
						if v == anchor {
							return true
						}
						var ops []*ssa.Value
						if i3, ok := v.(ssa.Instruction); ok {
							ops = i3.Operands(ops)
							for _, o := range ops {
								if *o != nil && dep(*o, d+1) {
									return true
								}
							}
						}
						return false
					}
					return dep(k, 0) || len(src.calls["path/filepath.Join"]) > 0 || len(src.calls["path/filepath.Abs"]) > 0
				}
				tested, recorded := false, false
				objCalls := map[ssa.Value]bool{}
				for _, b2 := range fn.Blocks {
					for _, i2 := range b2.Instrs {
						if mc, ok := i2.(*ssa.Call); ok && len(sharedObj) > 0 && len(mc.Call.Args) == 2 {
							if u, ok := mc.Call.Args[0].(*ssa.UnOp); ok {
								if fa, ok := u.X.(*ssa.FieldAddr); ok && fa.X == ssa.Value(fn.Params[0]) && sharedObj[fa.Field] && fromImport(mc.Call.Args[1]) {
									looks, updates := setMethodSummary(mc.Call.StaticCallee())
									if looks && mc.Referrers() != nil && len(*mc.Referrers()) > 0 {
										tested = true
										objCalls[mc] = true
									}
									if updates {
										recorded = true
									}
								}
							}
						}
						switch x := i2.(type) {
						case *ssa.Lookup:
							if u, ok := x.X.(*ssa.UnOp); ok {
								if fa, ok := u.X.(*ssa.FieldAddr); ok && fa.X == ssa.Value(fn.Params[0]) && shared[fa.Field] && fromImport(x.Index) {
									if x.Referrers() != nil && len(*x.Referrers()) > 0 {
										tested = true
									}
								}
							}
						case *ssa.MapUpdate:
							if u, ok := x.Map.(*ssa.UnOp); ok {
								if fa, ok := u.X.(*ssa.FieldAddr); ok && fa.X == ssa.Value(fn.Params[0]) && shared[fa.Field] && fromImport(x.Key) {
									recorded = true
								}
							}
						}
					}
				}
				// what the include-once answer decides is whether the statements are ADDED; that the
				// importer gets to know the file's public definitions must not depend on it
				onceVals := map[ssa.Value]bool{}
				onceFields := map[[2]interface{}]bool{}
				for _, b2 := range fn.Blocks {
					for _, i2 := range b2.Instrs {
						if lk, ok := i2.(*ssa.Lookup); ok {
							if u, ok := lk.X.(*ssa.UnOp); ok {
								if fa, ok := u.X.(*ssa.FieldAddr); ok && fa.X == ssa.Value(fn.Params[0]) && shared[fa.Field] {
									onceVals[lk] = true
								}
							}
						}
					}
				}
				for v := range objCalls {
					onceVals[v] = true
				}
				for changed := true; changed; {
					changed = false
					for _, b2 := range fn.Blocks {
						for _, i2 := range b2.Instrs {
							switch x := i2.(type) {
							case *ssa.UnOp:
								if onceVals[x.X] && !onceVals[x] {
									onceVals[x] = true
									changed = true
								}
								if fa, ok := x.X.(*ssa.FieldAddr); ok && x.Op == token.MUL {
									if pt, ok := fa.X.Type().Underlying().(*types.Pointer); ok && onceFields[[2]interface{}{pt.Elem().String(), fa.Field}] && !onceVals[x] {
										onceVals[x] = true
										changed = true
									}
								}
							case *ssa.Extract:
								if onceVals[x.Tuple] && !onceVals[x] {
									onceVals[x] = true
									changed = true
								}
							case *ssa.Phi:
								for _, e := range x.Edges {
									if onceVals[e] && !onceVals[x] {
										onceVals[x] = true
										changed = true
									}
								}
							case *ssa.Field:
								if onceFields[[2]interface{}{x.X.Type().String(), x.Field}] && !onceVals[x] {
									onceVals[x] = true
									changed = true
								}
							case *ssa.Store:
								if onceVals[x.Val] {
									if fa, ok := x.Addr.(*ssa.FieldAddr); ok {
										if pt, ok := fa.X.Type().Underlying().(*types.Pointer); ok {
											k := [2]interface{}{pt.Elem().String(), fa.Field}
											if !onceFields[k] {
												onceFields[k] = true
												changed = true
											}
										}
									}
								}
							}
						}
					}
				}
				regGated := ""
				linkDropped, linkSites := "", 0
				for _, b2 := range fn.Blocks {
					for _, i2 := range b2.Instrs {
						mu, ok := i2.(*ssa.MapUpdate)
						if !ok {
							continue
						}
						// a store into a table of the parsing context (not into the shared set itself)
						isCtx := false
						switch m := mu.Map.(type) {
						case *ssa.UnOp:
							if fa, ok := m.X.(*ssa.FieldAddr); ok && fa.X != ssa.Value(fn.Params[0]) {
								isCtx = true
							}
						case *ssa.Field:
							isCtx = true
						}
						if !isCtx {
							continue
						}
						for d := b2; d != nil; d = d.Idom() {
							par := d.Idom()
							if par == nil {
								continue
							}
							cnd, _ := condOf(par)
							if cnd == nil {
								continue
							}
							onT := par.Succs[0].Dominates(b2) && len(par.Succs[0].Preds) == 1
							onF := par.Succs[1].Dominates(b2) && len(par.Succs[1].Preds) == 1
							if onT == onF {
								continue
							}
							if onceVals[cnd] {
								regGated = w.Pos(mu.Pos())
							}
						}
					}
				}
				// the statements of a file that is included for the first time are all added: whether
				// one is added depends on the include-once answer only, never on whether a name it
				// defines is known already (a statement can define several names)
				for _, g := range w.Funcs("parser") {
					for _, b2 := range g.Blocks {
						for _, i2 := range b2.Instrs {
							ap, ok := i2.(*ssa.Call)
							if !ok {
								continue
							}
							bi, ok := ap.Call.Value.(*ssa.Builtin)
							if !ok || bi.Name() != "append" {
								continue
							}
							sl, ok := ap.Type().Underlying().(*types.Slice)
							if !ok || namedName(sl.Elem()) != "Statement" {
								continue
							}
							isOnce := func(v ssa.Value) bool {
								if g == fn && onceVals[v] {
									return true
								}
								switch x := v.(type) {
								case *ssa.Field:
									return onceFields[[2]interface{}{x.X.Type().String(), x.Field}]
								case *ssa.UnOp:
									if fa, ok := x.X.(*ssa.FieldAddr); ok && x.Op == token.MUL {
										if pt, ok := fa.X.Type().Underlying().(*types.Pointer); ok {
											return onceFields[[2]interface{}{pt.Elem().String(), fa.Field}]
										}
									}
								}
								return false
							}
							var dependsOnLookup func(v ssa.Value, d int, seen map[ssa.Value]bool) bool
							dependsOnLookup = func(v ssa.Value, d int, seen map[ssa.Value]bool) bool {
								if v == nil || d > 6 || seen[v] {
									return false
								}
								seen[v] = true
								switch x := v.(type) {
								case *ssa.Lookup:
									return x.CommaOk
								case *ssa.Extract:
									return dependsOnLookup(x.Tuple, d+1, seen)
								case *ssa.Phi:
									for _, e := range x.Edges {
										if dependsOnLookup(e, d+1, seen) {
											return true
										}
									}
								case *ssa.UnOp:
									return dependsOnLookup(x.X, d+1, seen)
								case *ssa.BinOp:
									return dependsOnLookup(x.X, d+1, seen) || dependsOnLookup(x.Y, d+1, seen)
								}
								return false
							}
							gated, nameCond := false, ""
							for d := b2; d != nil; d = d.Idom() {
								par := d.Idom()
								if par == nil {
									continue
								}
								cnd, _ := condOf(par)
								if cnd == nil || len(par.Succs) != 2 {
									continue
								}
								onT := par.Succs[0].Dominates(b2) && len(par.Succs[0].Preds) == 1
								onF := par.Succs[1].Dominates(b2) && len(par.Succs[1].Preds) == 1
								if onT == onF {
									continue
								}
								if isOnce(cnd) {
									gated = true
								} else if dependsOnLookup(cnd, 0, map[ssa.Value]bool{}) {
									nameCond = w.Pos(cnd.Pos())
									if nameCond == "-" || nameCond == "" {
										nameCond = w.Pos(par.Instrs[len(par.Instrs)-1].Pos())
									}
								}
							}
							if gated && nameCond != "" && linkDropped == "" {
								linkDropped = w.Pos(ap.Pos())
							}
							if gated {
								linkSites++
							}
						}
					}
				}
				switch {
				case linkDropped != "":
					r.Bad(rule, key, pos, "a statement of a file that is included for the first time is added ("+linkDropped+") only when a table look-up of a name it defines finds nothing: a statement that defines several names, one of which is known already (B, A := 2, 3 after var A int), is left out of the program, and the code that uses B runs without it")
				case regGated != "":
					r.Bad(rule, key, pos, "the importer learns the public definitions of an imported file ("+regGated+") only when the file's statements are added for the first time: a file that another import has already included stays unknown to this importer, and alias.Func is rejected as undefined")
				case len(shared) == 0:
					r.Bad(rule, key, pos, "no set of already included files is shared with the parser of the imported file: a file imported by two files (or under two aliases) is added to the program twice — its top-level statements run twice and its private globals are re-initialised between the importers")
				case !tested:
					r.Bad(rule, key, pos, "the shared set of included files is never consulted for the imported file: its statements are added on every import")
				case !recorded:
					r.Bad(rule, key, pos, "the imported file is never entered into the shared set of included files: a later import adds its statements again")
				default:
					r.Ok(rule, key, pos, fmt.Sprintf("a set shared by reference with the import parsers is consulted and updated under the imported file's identity before its statements are added; %d place(s) add the statements, depending on that answer alone", linkSites))
				}
			}
		}
	}
	if n == 0 {
		r.Bad(rule, "once:none", "-", "no place found where a parser for an imported file is created")
	}
}

// setMethodSummary: a method of a bookkeeping object with one key parameter: does it consult a
// map of its receiver under that key, does it enter the key into it?
func setMethodSummary(m *ssa.Function) (looks, updates bool) {
	if m == nil || len(m.Params) != 2 || len(m.Blocks) == 0 {
		return false, false
	}
	recv, key := m.Params[0], m.Params[1]
	ofRecv := func(v ssa.Value) bool {
		u, ok := v.(*ssa.UnOp)
		if !ok {
			return false
		}
		fa, ok := u.X.(*ssa.FieldAddr)
		return ok && fa.X == ssa.Value(recv)
	}
	for _, b := range m.Blocks {
		for _, ins := range b.Instrs {
			switch x := ins.(type) {
			case *ssa.Lookup:
				if ofRecv(x.X) && x.Index == ssa.Value(key) {
					looks = true
				}
			case *ssa.MapUpdate:
				if ofRecv(x.Map) && x.Key == ssa.Value(key) {
					updates = true
				}
			}
		}
	}
	return
}

// scopeCounterQueries: scopes kept as one counter per kind instead of a stack. A function
// that receives a scope and, under the test "it is the constant K", adds one to the field F
// makes F "the number of open K scopes"; a parameterless boolean method that returns F > 0
// is the query "is there an enclosing K".
func (cf *ctxFacts) scopeCounterQueries() {
	cf.scopeQK = map[*ssa.Function]string{}
	counterOf := map[string]string{} // "<struct type>.<field>" -> scope constant
	fieldKey := func(t types.Type, idx int) string {
		if p, ok := t.Underlying().(*types.Pointer); ok {
			t = p.Elem()
		}
		return t.String() + "." + structFieldName(t, idx)
	}
	for _, fn := range cf.w.Funcs("parser") {
		var sp *ssa.Parameter
		for _, p := range fn.Params {
			if isNamed(p.Type(), "scope") {
				sp = p
			}
		}
		if sp == nil {
			continue
		}
		for _, b := range fn.Blocks {
			for _, ins := range b.Instrs {
				st, ok := ins.(*ssa.Store)
				if !ok {
					continue
				}
				fa, ok := st.Addr.(*ssa.FieldAddr)
				if !ok || !isInt(st.Val.Type()) {
					continue
				}
				bo, ok := st.Val.(*ssa.BinOp)
				if !ok || bo.Op != token.ADD || !isConstInt(bo.Y, 1) {
					continue
				}
				// the block is reached only where the scope parameter equals a constant
				for d := b; d != nil; d = d.Idom() {
					parent := d.Idom()
					if parent == nil {
						break
					}
					c, neg := condOf(parent)
					cmp, ok := c.(*ssa.BinOp)
					if !ok || neg || cmp.Op != token.EQL || cmp.X != ssa.Value(sp) {
						continue
					}
					k, ok := cmp.Y.(*ssa.Const)
					if !ok || k.Value == nil || k.Value.Kind() != constant.String {
						continue
					}
					if parent.Succs[0] == d || parent.Succs[0].Dominates(b) {
						counterOf[fieldKey(fa.X.Type(), fa.Field)] = constant.StringVal(k.Value)
					}
				}
			}
		}
	}
	if len(counterOf) == 0 {
		return
	}
	for _, fn := range cf.w.Funcs("parser") {
		recv := fn.Signature.Recv()
		res := fn.Signature.Results()
		if recv == nil || !types.Identical(recv.Type(), cf.ctxType) || len(fn.Params) != 1 || res.Len() != 1 || !isBool(res.At(0).Type()) || len(fn.Blocks) != 1 {
			continue
		}
		ret, ok := fn.Blocks[0].Instrs[len(fn.Blocks[0].Instrs)-1].(*ssa.Return)
		if !ok {
			continue
		}
		cmp, ok := ret.Results[0].(*ssa.BinOp)
		if !ok || cmp.Op != token.GTR || !isConstInt(cmp.Y, 0) {
			continue
		}
		switch x := cmp.X.(type) {
		case *ssa.Field:
			if k, ok := counterOf[fieldKey(x.X.Type(), x.Field)]; ok {
				cf.scopeQK[fn] = k
			}
		case *ssa.UnOp:
			if fa, ok := x.X.(*ssa.FieldAddr); ok {
				if k, ok := counterOf[fieldKey(fa.X.Type(), fa.Field)]; ok {
					cf.scopeQK[fn] = k
				}
			}
		}
	}
	for fn := range cf.scopeQK {
		cf.scopeQ[fn] = true
	}
}
