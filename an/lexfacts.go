package an

import (
	"fmt"
	"go/ast"
	"go/constant"
	"go/token"
	"go/types"
	"regexp/syntax"
	"sort"
	"strings"
)

// ---------------------------------------------------------------------------
// E4: facts about the lexer read from its syntax tree and type information.
// ---------------------------------------------------------------------------

type LexRegex struct {
	Pattern string
	Pos     token.Pos
	Tree    *syntax.Regexp
	Method  string   // FindString, FindStringSubmatch, MatchString
	Arg     ast.Expr // what it is applied to
	Call    *ast.CallExpr
	OnRest  bool // applied to a slice expression of the source (rest of input)
	Index   int  // order of appearance in the scanning function
}

type PunctEntry struct {
	Value string
	Type  string
	Pos   token.Pos
}

type LexFacts struct {
	Regexes     []*LexRegex
	Punct       []PunctEntry
	PunctVar    types.Object
	Keywords    map[string]string // spelling -> token type name
	KeywordsVar types.Object
	TokenTypes  map[string]int64 // constant name -> value
	Tokenize    *ast.FuncDecl
}

func constString(info *types.Info, e ast.Expr) (string, bool) {
	tv, ok := info.Types[e]
	if !ok || tv.Value == nil || tv.Value.Kind() != constant.String {
		return "", false
	}
	return constant.StringVal(tv.Value), true
}

func calleeObj(info *types.Info, call *ast.CallExpr) types.Object {
	switch f := call.Fun.(type) {
	case *ast.SelectorExpr:
		if o := info.Uses[f.Sel]; o != nil {
			return o
		}
		if s := info.Selections[f]; s != nil {
			return s.Obj()
		}
	case *ast.Ident:
		return info.Uses[f]
	}
	return nil
}

func BuildLexFacts(w *World) (*LexFacts, error) {
	pkg := w.Pkgs["lexer"]
	info := pkg.TypesInfo
	lf := &LexFacts{Keywords: map[string]string{}, TokenTypes: map[string]int64{}}
	// the exported entry point
	for _, f := range pkg.Syntax {
		for _, d := range f.Decls {
			if fd, ok := d.(*ast.FuncDecl); ok && fd.Name.Name == "Tokenize" && fd.Recv == nil {
				lf.Tokenize = fd
			}
		}
	}
	if lf.Tokenize == nil {
		return nil, fmt.Errorf("lexer.Tokenize not found")
	}
	tokType := pkg.Types.Scope().Lookup("TokenType")
	if tokType == nil {
		return nil, fmt.Errorf("lexer.TokenType not found")
	}
	scope := pkg.Types.Scope()
	for _, n := range scope.Names() {
		if c, ok := scope.Lookup(n).(*types.Const); ok && types.Identical(c.Type(), tokType.Type()) {
			v, _ := constant.Int64Val(c.Val())
			lf.TokenTypes[n] = v
		}
	}
	constName := func(e ast.Expr) string {
		if id, ok := e.(*ast.Ident); ok {
			if c, ok := info.Uses[id].(*types.Const); ok {
				return c.Name()
			}
		}
		if sel, ok := e.(*ast.SelectorExpr); ok {
			if c, ok := info.Uses[sel.Sel].(*types.Const); ok {
				return c.Name()
			}
		}
		return ""
	}
	// package-level tables
	for _, f := range pkg.Syntax {
		for _, d := range f.Decls {
			gd, ok := d.(*ast.GenDecl)
			if !ok || gd.Tok != token.VAR {
				continue
			}
			for _, sp := range gd.Specs {
				vs := sp.(*ast.ValueSpec)
				for i, name := range vs.Names {
					if i >= len(vs.Values) {
						continue
					}
					cl, ok := vs.Values[i].(*ast.CompositeLit)
					if !ok {
						continue
					}
					obj := info.Defs[name]
					switch t := obj.Type().Underlying().(type) {
					case *types.Slice:
						st, ok := t.Elem().Underlying().(*types.Struct)
						if !ok || st.NumFields() != 2 {
							continue
						}
						si, ti := -1, -1
						for k := 0; k < 2; k++ {
							if isString(st.Field(k).Type()) {
								si = k
							}
							if types.Identical(st.Field(k).Type(), tokType.Type()) {
								ti = k
							}
						}
						if si < 0 || ti < 0 {
							continue
						}
						lf.PunctVar = obj
						for _, el := range cl.Elts {
							ecl, ok := el.(*ast.CompositeLit)
							if !ok || len(ecl.Elts) != 2 {
								continue
							}
							var vexpr, texpr ast.Expr
							for k, e := range ecl.Elts {
								if kv, ok := e.(*ast.KeyValueExpr); ok {
									if id, ok := kv.Key.(*ast.Ident); ok {
										if id.Name == st.Field(si).Name() {
											vexpr = kv.Value
										} else {
											texpr = kv.Value
										}
									}
								} else if k == si {
									vexpr = e
								} else {
									texpr = e
								}
							}
							if vexpr == nil || texpr == nil {
								continue
							}
							s, ok := constString(info, vexpr)
							if !ok {
								continue
							}
							lf.Punct = append(lf.Punct, PunctEntry{Value: s, Type: constName(texpr), Pos: ecl.Pos()})
						}
					case *types.Map:
						if !isString(t.Key()) || !types.Identical(t.Elem(), tokType.Type()) {
							continue
						}
						lf.KeywordsVar = obj
						for _, el := range cl.Elts {
							kv, ok := el.(*ast.KeyValueExpr)
							if !ok {
								continue
							}
							s, ok := constString(info, kv.Key)
							if !ok {
								continue
							}
							lf.Keywords[s] = constName(kv.Value)
						}
					}
				}
			}
		}
	}
	// regexes compiled once into package-level (or local) variables: var re = regexp.MustCompile(`…`)
	compiled := map[types.Object]string{}
	for _, f := range pkg.Syntax {
		ast.Inspect(f, func(n ast.Node) bool {
			var names []*ast.Ident
			var values []ast.Expr
			switch x := n.(type) {
			case *ast.ValueSpec:
				names, values = x.Names, x.Values
			case *ast.AssignStmt:
				if x.Tok == token.DEFINE && len(x.Lhs) == len(x.Rhs) {
					for _, l := range x.Lhs {
						if id, ok := l.(*ast.Ident); ok {
							names = append(names, id)
						} else {
							names = append(names, nil)
						}
					}
					values = x.Rhs
				}
			}
			for i, nm := range names {
				if nm == nil || i >= len(values) {
					continue
				}
				call, ok := values[i].(*ast.CallExpr)
				if !ok || len(call.Args) != 1 {
					continue
				}
				o := calleeObj(info, call)
				if o == nil || o.Pkg() == nil || o.Pkg().Path() != "regexp" || (o.Name() != "MustCompile" && o.Name() != "Compile") {
					continue
				}
				if pat, ok := constString(info, call.Args[0]); ok {
					if obj := info.Defs[nm]; obj != nil {
						compiled[obj] = pat
					}
				}
			}
			return true
		})
	}
	// regexes compiled from constants anywhere in the package
	idx := 0
	for _, f := range pkg.Syntax {
		// map MustCompile calls to the method call applied on them
		ast.Inspect(f, func(n ast.Node) bool {
			call, ok := n.(*ast.CallExpr)
			if !ok {
				return true
			}
			sel, ok := call.Fun.(*ast.SelectorExpr)
			if !ok {
				return true
			}
			if id, ok := sel.X.(*ast.Ident); ok {
				// method call on a regex variable
				if pat, ok := compiled[info.Uses[id]]; ok {
					tree, err := syntax.Parse(pat, syntax.Perl)
					if err != nil {
						tree = nil
					}
					lr := &LexRegex{Pattern: pat, Pos: call.Pos(), Tree: tree, Method: sel.Sel.Name, Call: call, Index: idx}
					idx++
					if len(call.Args) > 0 {
						lr.Arg = call.Args[0]
						if _, ok := call.Args[0].(*ast.SliceExpr); ok {
							lr.OnRest = true
						}
					}
					lf.Regexes = append(lf.Regexes, lr)
				}
				return true
			}
			inner, ok := sel.X.(*ast.CallExpr)
			if !ok {
				return true
			}
			o := calleeObj(info, inner)
			if o == nil || o.Pkg() == nil || o.Pkg().Path() != "regexp" || (o.Name() != "MustCompile" && o.Name() != "Compile") {
				return true
			}
			if len(inner.Args) != 1 {
				return true
			}
			pat, ok := constString(info, inner.Args[0])
			if !ok {
				lf.Regexes = append(lf.Regexes, &LexRegex{Pattern: "", Pos: inner.Pos(), Method: sel.Sel.Name, Call: call, Index: idx})
				idx++
				return true
			}
			tree, err := syntax.Parse(pat, syntax.Perl)
			if err != nil {
				tree = nil
			}
			lr := &LexRegex{Pattern: pat, Pos: inner.Pos(), Tree: tree, Method: sel.Sel.Name, Call: call, Index: idx}
			idx++
			if len(call.Args) > 0 {
				lr.Arg = call.Args[0]
				if _, ok := call.Args[0].(*ast.SliceExpr); ok {
					lr.OnRest = true
				}
			}
			lf.Regexes = append(lf.Regexes, lr)
			return true
		})
	}
	sort.Slice(lf.Regexes, func(i, j int) bool { return lf.Regexes[i].Pos < lf.Regexes[j].Pos })
	for i, r := range lf.Regexes {
		r.Index = i
	}
	return lf, nil
}

// charClassOf: if the regex is a single character class (unanchored), return it.
func charClassOf(t *syntax.Regexp) (*syntax.Regexp, bool) {
	if t == nil {
		return nil, false
	}
	t = t.Simplify()
	if t.Op == syntax.OpCharClass {
		return t, true
	}
	// ^[class]$, ^[class]*$, [class]+ … : the class a one-character operand is tested against
	var inner *syntax.Regexp
	switch t.Op {
	case syntax.OpConcat:
		for _, s := range t.Sub {
			switch s.Op {
			case syntax.OpBeginText, syntax.OpEndText, syntax.OpBeginLine, syntax.OpEndLine:
			default:
				if inner != nil {
					return nil, false
				}
				inner = s
			}
		}
	case syntax.OpStar, syntax.OpPlus, syntax.OpQuest, syntax.OpCapture:
		inner = t.Sub[0]
	}
	if inner != nil {
		return charClassOf(inner)
	}
	return nil, false
}

func classString(t *syntax.Regexp) string {
	return t.String()
}

// LexerIdentifierLanguage returns the regex sources of the first-character and
// following-character classes of identifiers and the keyword set.
func LexerIdentifierLanguage(w *World) ([2]string, map[string]bool, error) {
	lf, err := BuildLexFacts(w)
	if err != nil {
		return [2]string{}, nil, err
	}
	var first, rest string
	// the identifier arm: character tests whose class holds the letters; the one that also
	// admits digits decides the following characters, the one that does not decides the first
	for _, t := range LexCharTests(w) {
		if !(t.Set.Has('a') && t.Set.Has('z') && t.Set.Has('A') && t.Set.Has('Z')) {
			continue
		}
		if t.Set.Has('5') {
			rest = t.Set.ClassString()
		} else {
			first = t.Set.ClassString()
		}
	}
	// the identifier arm written as one anchored probe on the rest of the input:
	// ^ class class*  (first character, following characters)
	if first == "" || rest == "" {
		for _, r := range lf.Regexes {
			if r.Tree == nil || !r.OnRest {
				continue
			}
			t := r.Tree.Simplify()
			if t.Op != syntax.OpConcat {
				continue
			}
			var parts []*syntax.Regexp
			for _, sub := range t.Sub {
				if sub.Op == syntax.OpBeginText || sub.Op == syntax.OpBeginLine {
					continue
				}
				parts = append(parts, sub)
			}
			if len(parts) != 2 || parts[0].Op != syntax.OpCharClass || parts[1].Op != syntax.OpStar || parts[1].Sub[0].Op != syntax.OpCharClass {
				continue
			}
			has := func(cc *syntax.Regexp, c rune) bool {
				for i := 0; i+1 < len(cc.Rune); i += 2 {
					if cc.Rune[i] <= c && c <= cc.Rune[i+1] {
						return true
					}
				}
				return false
			}
			a, b := parts[0], parts[1].Sub[0]
			if has(a, 'a') && has(a, 'Z') && !has(a, '5') && has(b, 'a') && has(b, '5') {
				first, rest = classString(a), classString(b)
			}
		}
	}
	if first == "" || rest == "" {
		return [2]string{}, nil, fmt.Errorf("identifier character classes not found in the lexer (first=%q rest=%q)", first, rest)
	}
	kw := map[string]bool{}
	for k := range lf.Keywords {
		kw[k] = true
	}
	// literals that the lexer turns into non-identifier tokens before the identifier arm
	for _, r := range lf.Regexes {
		if r.Tree == nil || !r.OnRest {
			continue
		}
		for _, s := range literalAlternatives(r.Tree) {
			if s != "" && strings.IndexFunc(s, func(c rune) bool { return !(c == '_' || (c >= 'a' && c <= 'z') || (c >= 'A' && c <= 'Z')) }) < 0 {
				kw[s] = true
			}
		}
	}
	return [2]string{first, rest}, kw, nil
}

// literalAlternatives: for ^(a|b|c) shaped regexes, the literal words.
func literalAlternatives(t *syntax.Regexp) []string {
	var out []string
	var walk func(t *syntax.Regexp)
	walk = func(t *syntax.Regexp) {
		switch t.Op {
		case syntax.OpLiteral:
			out = append(out, string(t.Rune))
		case syntax.OpAlternate, syntax.OpCapture:
			for _, s := range t.Sub {
				walk(s)
			}
		case syntax.OpConcat:
			// ^ followed by one alternative group
			if len(t.Sub) >= 2 && (t.Sub[0].Op == syntax.OpBeginText || t.Sub[0].Op == syntax.OpBeginLine) {
				// literal words only when the remainder is one alternative group (plus zero-width assertions)
				groups := 0
				for _, s := range t.Sub[1:] {
					switch s.Op {
					case syntax.OpWordBoundary, syntax.OpEndText, syntax.OpEndLine:
					default:
						groups++
					}
				}
				if groups == 1 {
					for _, s := range t.Sub[1:] {
						walk(s)
					}
				}
			}
		}
	}
	walk(t)
	return out
}
