package an

import (
	"fmt"
	"go/constant"
	"go/token"
	"go/types"
	"os"
	"sort"
	"strings"

	"golang.org/x/tools/go/ssa"
)

// ---------------------------------------------------------------------------
// E1: typed slots of the parser's tree nodes and the guards protecting them.
// ---------------------------------------------------------------------------

type SlotStore struct {
	Fn    *ssa.Function
	Node  string
	Field string
	Val   ssa.Value
	Instr ssa.Instruction // the store or the constructor call
	Via   string
	List  bool
}

func (s SlotStore) Key() string { return s.Node + "." + s.Field }

type ParserFacts struct {
	W         *World
	Stmt      *types.Interface
	Expr      *types.Interface
	NodeTypes map[string]*types.Named
	Slots     []SlotStore
	typeInfo  map[string]nodeTypeInfo
	treeTypes map[*types.Named]bool
	wrapDepth int        // depth of error-returning helpers followed into their own helpers
	prodDepth int        // depth of producers followed through forwarded lists
	bind      *fnBinding // set while a value is judged inside a reader that was handed functions
}

type nodeTypeInfo struct {
	kind     string // "const", "delegate", "stored", "unknown"
	dataType string
	slice    bool
	field    string
}

func isIfaceImpl(t types.Type, iface *types.Interface) bool {
	if _, ok := t.Underlying().(*types.Interface); ok {
		return types.Implements(t, iface)
	}
	return false
}

// exprLike: interface type implementing Statement, or slice of such.
func (pf *ParserFacts) exprLike(t types.Type) (bool, bool) {
	if isIfaceImpl(t, pf.Stmt) {
		return true, false
	}
	if s, ok := t.Underlying().(*types.Slice); ok && isIfaceImpl(s.Elem(), pf.Stmt) {
		return true, true
	}
	return false, false
}

func BuildParserFacts(w *World) (*ParserFacts, error) {
	pkg := w.Pkgs["parser"].Types
	so := pkg.Scope().Lookup("Statement")
	eo := pkg.Scope().Lookup("Expression")
	if so == nil || eo == nil {
		return nil, fmt.Errorf("parser.Statement / parser.Expression not found")
	}
	pf := &ParserFacts{W: w, Stmt: so.Type().Underlying().(*types.Interface), Expr: eo.Type().Underlying().(*types.Interface), NodeTypes: map[string]*types.Named{}, typeInfo: map[string]nodeTypeInfo{}}
	for _, n := range pkg.Scope().Names() {
		tn, ok := pkg.Scope().Lookup(n).(*types.TypeName)
		if !ok {
			continue
		}
		named, ok := tn.Type().(*types.Named)
		if !ok {
			continue
		}
		if _, ok := named.Underlying().(*types.Struct); ok {
			pf.NodeTypes[n] = named
		}
	}
	// constructor-like functions: parameter index -> (node, field)
	type pslot struct {
		node, field string
		list        bool
	}
	ctor := map[*ssa.Function]map[int][]pslot{}
	fns := w.Funcs("parser")
	isSlotField := func(fa *ssa.FieldAddr) (string, string, bool, bool) {
		pt, ok := fa.X.Type().Underlying().(*types.Pointer)
		if !ok {
			return "", "", false, false
		}
		named, ok := pt.Elem().(*types.Named)
		if !ok || named.Obj().Pkg() != pkg {
			return "", "", false, false
		}
		st, ok := named.Underlying().(*types.Struct)
		if !ok {
			return "", "", false, false
		}
		f := st.Field(fa.Field)
		is, list := pf.exprLike(f.Type())
		if !is {
			return "", "", false, false
		}
		// only fields of tree nodes (and of the parts nodes are made of) are typed positions;
		// a plain carrier struct of the parser (a list of values on its way, an imported
		// statement with a flag) is not part of the tree
		if !pf.isTreeType(named) {
			return "", "", false, false
		}
		return named.Obj().Name(), f.Name(), list, true
	}
	for _, fn := range fns {
		for _, b := range fn.Blocks {
			for _, ins := range b.Instrs {
				st, ok := ins.(*ssa.Store)
				if !ok {
					continue
				}
				fa, ok := st.Addr.(*ssa.FieldAddr)
				if !ok {
					continue
				}
				node, field, list, ok := isSlotField(fa)
				if !ok {
					continue
				}
				v := st.Val
				// parameter stored (possibly wrapped into a literal list / interface, or one of
				// several parameters chosen inside the constructor)
				if ps := paramOrigins(v, 0); len(ps) > 0 && fn.Parent() == nil {
					for _, p := range ps {
						for i, fp := range fn.Params {
							if fp == p {
								if ctor[fn] == nil {
									ctor[fn] = map[int][]pslot{}
								}
								dup := false
								for _, e := range ctor[fn][i] {
									if e.node == node && e.field == field {
										dup = true
									}
								}
								if !dup {
									ctor[fn][i] = append(ctor[fn][i], pslot{node, field, list})
								}
							}
						}
					}
					continue
				}
				pf.Slots = append(pf.Slots, SlotStore{Fn: fn, Node: node, Field: field, Val: v, Instr: st, Via: "literal", List: list})
			}
		}
	}
	// nested constructions inside constructor functions (e.g. the ++/-- helper)
	// call sites of constructors
	for _, fn := range fns {
		for _, b := range fn.Blocks {
			for _, ins := range b.Instrs {
				c, ok := ins.(*ssa.Call)
				if !ok {
					continue
				}
				callee := c.Call.StaticCallee()
				if callee == nil || ctor[callee] == nil {
					continue
				}
				for i, pss := range ctor[callee] {
					for _, ps := range pss {
						if i < len(c.Call.Args) {
							pf.Slots = append(pf.Slots, SlotStore{Fn: fn, Node: ps.node, Field: ps.field, Val: c.Call.Args[i], Instr: c, Via: "ctor:" + callee.Name(), List: ps.list})
						}
					}
				}
			}
		}
	}
	sort.SliceStable(pf.Slots, func(i, j int) bool { return pf.Slots[i].Instr.Pos() < pf.Slots[j].Instr.Pos() })
	pf.computeTypeInfo()
	return pf, nil
}

// isTreeType: the struct implements Statement, or is the type of a field (or list element of
// a field) of such a struct (IfBranch, Else: parts of nodes).
func (pf *ParserFacts) isTreeType(named *types.Named) bool {
	if pf.treeTypes == nil {
		pf.treeTypes = map[*types.Named]bool{}
		var add func(n *types.Named)
		add = func(n *types.Named) {
			if pf.treeTypes[n] {
				return
			}
			pf.treeTypes[n] = true
			st, ok := n.Underlying().(*types.Struct)
			if !ok {
				return
			}
			for i := 0; i < st.NumFields(); i++ {
				t := st.Field(i).Type()
				if sl, ok := t.Underlying().(*types.Slice); ok {
					t = sl.Elem()
				}
				if fn, ok := t.(*types.Named); ok && fn.Obj().Pkg() == n.Obj().Pkg() {
					if _, isStruct := fn.Underlying().(*types.Struct); isStruct {
						add(fn)
					}
				}
			}
		}
		for _, n := range pf.NodeTypes {
			if types.Implements(n, pf.Stmt) || types.Implements(types.NewPointer(n), pf.Stmt) {
				add(n)
			}
		}
	}
	return pf.treeTypes[named]
}

// paramOrigins: v is a parameter or a choice (phi) among parameters, possibly wrapped.
func paramOrigins(v ssa.Value, depth int) []*ssa.Parameter {
	if depth > 3 {
		return nil
	}
	if ph, ok := v.(*ssa.Phi); ok {
		var out []*ssa.Parameter
		for _, e := range ph.Edges {
			ps := paramOrigins(e, depth+1)
			if len(ps) == 0 {
				return nil
			}
			out = append(out, ps...)
		}
		return out
	}
	if p := paramOrigin(v); p != nil {
		return []*ssa.Parameter{p}
	}
	return nil
}

// paramOrigin: v is a parameter, possibly wrapped (interface conversion, one-element literal list).
func paramOrigin(v ssa.Value) *ssa.Parameter {
	switch x := v.(type) {
	case *ssa.Parameter:
		return x
	case *ssa.MakeInterface:
		return paramOrigin(x.X)
	case *ssa.ChangeInterface:
		return paramOrigin(x.X)
	}
	return nil
}

// computeTypeInfo: what ValueType() of each node type yields.
func (pf *ParserFacts) computeTypeInfo() {
	w := pf.W
	for name, named := range pf.NodeTypes {
		var m *types.Func
		for i := 0; i < named.NumMethods(); i++ {
			if named.Method(i).Name() == "ValueType" {
				m = named.Method(i)
			}
		}
		if m == nil {
			continue
		}
		fn := w.Prog.FuncValue(m)
		if fn == nil || len(fn.Blocks) == 0 {
			continue
		}
		info := nodeTypeInfo{kind: "unknown"}
		if len(fn.Blocks) == 1 {
			ret := fn.Blocks[0].Instrs[len(fn.Blocks[0].Instrs)-1].(*ssa.Return)
			info = pf.classifyVT(ret.Results[0], 0)
		}
		pf.typeInfo[name] = info
	}
}

func (pf *ParserFacts) classifyVT(v ssa.Value, depth int) nodeTypeInfo {
	if depth > 4 {
		return nodeTypeInfo{kind: "unknown"}
	}
	constStr := func(v ssa.Value) (string, bool) {
		c, ok := v.(*ssa.Const)
		if !ok || c.Value == nil || c.Value.Kind() != constant.String {
			return "", false
		}
		return constant.StringVal(c.Value), true
	}
	switch x := v.(type) {
	case *ssa.Call:
		callee := x.Call.StaticCallee()
		if callee != nil && callee.Name() == "NewValueType" && len(x.Call.Args) == 2 {
			dt, ok1 := constStr(x.Call.Args[0])
			sl, ok2 := x.Call.Args[1].(*ssa.Const)
			if ok1 && ok2 {
				return nodeTypeInfo{kind: "const", dataType: dt, slice: constant.BoolVal(sl.Value)}
			}
		}
		// delegate: X.ValueType() where X is a field of the receiver (directly or through an accessor)
		if x.Call.IsInvoke() && x.Call.Method.Name() == "ValueType" {
			if f := fieldOfReceiver(x.Call.Value, 0); f != "" {
				return nodeTypeInfo{kind: "delegate", field: f}
			}
		}
		if callee != nil && len(x.Call.Args) >= 1 {
			// functionValueType(e.returnTypes)
			if f := fieldOfReceiver(x.Call.Args[0], 0); f != "" && callee.Name() != "ValueType" {
				return nodeTypeInfo{kind: "stored", field: f}
			}
		}
	case *ssa.UnOp:
		// load of a local composite ValueType{dataType: …}
		if al, ok := x.X.(*ssa.Alloc); ok {
			info := nodeTypeInfo{kind: "const"}
			found := false
			for _, r := range *al.Referrers() {
				fa, ok := r.(*ssa.FieldAddr)
				if !ok {
					continue
				}
				for _, rr := range *fa.Referrers() {
					st, ok := rr.(*ssa.Store)
					if !ok {
						continue
					}
					switch structFieldName(fa.X.Type(), fa.Field) {
					case "dataType":
						if s, ok := constStr(st.Val); ok {
							info.dataType = s
							found = true
						} else if f := fieldOfReceiver(st.Val, 0); f != "" {
							return nodeTypeInfo{kind: "stored", field: f}
						}
					case "isSlice":
						if c, ok := st.Val.(*ssa.Const); ok && c.Value != nil {
							info.slice = constant.BoolVal(c.Value)
						}
					}
				}
			}
			if found {
				return info
			}
		}
		if f := fieldOfReceiver(x, 0); f != "" {
			return nodeTypeInfo{kind: "stored", field: f}
		}
	case *ssa.Field:
		if f := fieldOfReceiver(x, 0); f != "" {
			return nodeTypeInfo{kind: "stored", field: f}
		}
	}
	return nodeTypeInfo{kind: "unknown"}
}

// fieldOfReceiver: v reads a field of the method's receiver (directly or via an accessor method).
func fieldOfReceiver(v ssa.Value, depth int) string {
	if depth > 3 {
		return ""
	}
	switch x := v.(type) {
	case *ssa.Field:
		if _, ok := x.X.(*ssa.Parameter); ok {
			return structFieldName(x.X.Type(), x.Field)
		}
		if u, ok := x.X.(*ssa.UnOp); ok {
			if al, ok := u.X.(*ssa.Alloc); ok {
				_ = al
				return structFieldName(x.X.Type(), x.Field)
			}
		}
	case *ssa.UnOp:
		if fa, ok := x.X.(*ssa.FieldAddr); ok {
			return structFieldName(fa.X.Type(), fa.Field)
		}
	case *ssa.Call:
		if callee := x.Call.StaticCallee(); callee != nil && isAccessor(callee) && len(callee.Blocks) == 1 {
			ret := callee.Blocks[0].Instrs[len(callee.Blocks[0].Instrs)-1].(*ssa.Return)
			if len(ret.Results) == 1 {
				return fieldOfReceiver(ret.Results[0], depth+1)
			}
		}
	}
	return ""
}

// ---- guard atoms -----------------------------------------------------------------------

type atomKind string

const (
	atomBool     atomKind = "IsBool"
	atomInt      atomKind = "IsInt"
	atomString   atomKind = "IsString"
	atomSlice    atomKind = "IsSlice"
	atomEquals   atomKind = "Equals"   // full type equality with another type
	atomDataType atomKind = "DataType" // data type compared only
	atomOp       atomKind = "OpAllowed"
	atomNonVoid  atomKind = "NonVoid"
	atomArity    atomKind = "Arity"
	atomTag      atomKind = "Tag"
	atomSingle   atomKind = "Single" // not the pseudo type of a call with several results
)

type guardAtom struct {
	kind    atomKind
	ifi     *ssa.If
	holdsOn int // successor index on which the atom holds
	neg     bool
}

// derivedSet: values carrying type information of v (forward closure).
type derivation struct {
	vals  map[ssa.Value]bool // expression-level aliases of v (v, phis over it, list elements)
	types map[ssa.Value]bool // ValueType-level values derived from them
}

func (pf *ParserFacts) derive(v ssa.Value, list bool) *derivation {
	return pf.deriveIdx(v, list, -1)
}

// deriveIdx: as derive; when onlyIdx >= 0, element loads with a different constant index are not followed.
func (pf *ParserFacts) deriveIdx(v ssa.Value, list bool, onlyIdx int64) *derivation {
	d := &derivation{vals: map[ssa.Value]bool{v: true}, types: map[ssa.Value]bool{}}
	work := []ssa.Value{v}
	pushV := func(x ssa.Value) {
		if !d.vals[x] {
			d.vals[x] = true
			work = append(work, x)
		}
	}
	pushT := func(x ssa.Value) {
		if !d.types[x] {
			d.types[x] = true
			work = append(work, x)
		}
	}
	for len(work) > 0 {
		x := work[len(work)-1]
		work = work[:len(work)-1]
		refs := x.Referrers()
		if refs == nil {
			continue
		}
		isT := d.types[x]
		for _, r := range *refs {
			switch y := r.(type) {
			case *ssa.Call:
				cv := y.Call
				name := ""
				if cv.IsInvoke() {
					name = cv.Method.Name()
				} else if callee := cv.StaticCallee(); callee != nil {
					name = callee.Name()
				}
				if !isT {
					// expression-level value
					if cv.IsInvoke() && cv.Value == x {
						switch name {
						case "ValueType", "ReturnTypes", "StatementType":
							pushT(y)
						}
						continue
					}
					if callee := cv.StaticCallee(); callee != nil && pf.W.IsProduct(pkgOf(callee)) {
						// struct holding the list handed to a helper (isMultiReturnCall), accessor on concrete node
						switch name {
						case "ValueType", "ReturnTypes", "StatementType", "DataType":
							pushT(y)
						default:
							if len(cv.Args) > 0 && cv.Args[0] == x && callee.Signature.Recv() != nil {
								if isTypeLevelType(y.Type()) {
									pushT(y) // helper returning the type(s) of the container's values
								} else {
									pushV(y) // results derived from the container
								}
							}
						}
					}
					if bi, ok := cv.Value.(*ssa.Builtin); ok && bi.Name() == "append" {
						pushV(y)
					}
					if bi, ok := cv.Value.(*ssa.Builtin); ok && bi.Name() == "len" {
						pushT(y) // length of the list: arity information
					}
					continue
				}
				// type-level value: any call consuming it yields type-level info
				pushT(y)
			case *ssa.Extract:
				if isT {
					pushT(y)
				} else {
					pushV(y)
				}
			case *ssa.Phi, *ssa.MakeInterface, *ssa.ChangeInterface, *ssa.TypeAssert, *ssa.Field, *ssa.Index, *ssa.Slice, *ssa.Range, *ssa.Next, *ssa.UnOp, *ssa.IndexAddr, *ssa.FieldAddr:
				// composite node construction must not lend identity: MakeInterface of a *node* built from v is a new value
				if mi, ok := y.(*ssa.MakeInterface); ok {
					if _, isNode := pf.NodeTypes[namedName(mi.X.Type())]; isNode && !d.vals[mi.X] {
						continue
					}
				}
				if ia, ok := y.(*ssa.IndexAddr); ok && onlyIdx >= 0 {
					if k, ok := ia.Index.(*ssa.Const); ok && k.Value != nil && k.Int64() != onlyIdx {
						continue // a different element of the list
					}
				}
				if isT {
					pushT(y.(ssa.Value))
				} else {
					pushV(y.(ssa.Value))
				}
			case *ssa.BinOp:
				pushT(y)
			case *ssa.Store:
				if y.Val != x {
					continue
				}
				base := y.Addr
				for {
					switch b := base.(type) {
					case *ssa.IndexAddr:
						base = b.X
						continue
					case *ssa.FieldAddr:
						// storing v into a node literal does not alias the node with v
						if al, ok := b.X.(*ssa.Alloc); ok {
							if _, isNode := pf.NodeTypes[namedName(al.Type().Underlying().(*types.Pointer).Elem())]; isNode {
								base = nil
							} else {
								base = b.X
								continue
							}
						}
					}
					break
				}
				if base == nil {
					continue
				}
				if al, ok := base.(*ssa.Alloc); ok {
					// array backing a literal list / local cell: loads and slices of it
					if isT {
						pushT(al)
					} else {
						pushV(al)
					}
				}
			}
		}
	}
	return d
}

// isTypeLevelType: the parser's own type descriptors (ValueType, DataType, StatementType) or a list of them.
func isTypeLevelType(t types.Type) bool {
	if sl, ok := t.Underlying().(*types.Slice); ok {
		t = sl.Elem()
	}
	switch namedName(t) {
	case "ValueType", "DataType", "StatementType":
		return true
	}
	return false
}

// atomsOn: guard atoms whose condition is computed from type-level values of d.
func (pf *ParserFacts) atomsOn(fn *ssa.Function, d *derivation) []guardAtom {
	var out []guardAtom
	for _, b := range fn.Blocks {
		if len(b.Instrs) == 0 {
			continue
		}
		ifi, ok := b.Instrs[len(b.Instrs)-1].(*ssa.If)
		if !ok {
			continue
		}
		kind, holdsOnTrue, ok := pf.classifyCond(ifi.Cond, d, 0)
		if !ok {
			// wrapper idiom: err := helper(v, …); if err != nil { … } where the helper tests v and returns an error
			for _, wa := range pf.wrapperAtoms(ifi, d) {
				out = append(out, wa)
			}
			continue
		}
		idx := 0
		if !holdsOnTrue {
			idx = 1
		}
		out = append(out, guardAtom{kind: kind, ifi: ifi, holdsOn: idx})
	}
	return out
}

// wrapperAtoms: the condition tests the error result of a helper that itself tests the value.
func (pf *ParserFacts) wrapperAtoms(ifi *ssa.If, d *derivation) []guardAtom {
	bo, ok := ifi.Cond.(*ssa.BinOp)
	if !ok || (bo.Op != token.NEQ && bo.Op != token.EQL) {
		return nil
	}
	k, ok := bo.Y.(*ssa.Const)
	if !ok || !k.IsNil() || !isErrorType(bo.X.Type()) {
		return nil
	}
	var call *ssa.Call
	switch x := bo.X.(type) {
	case *ssa.Call:
		call = x
	case *ssa.Extract:
		call, _ = x.Tuple.(*ssa.Call)
	}
	if call == nil {
		return nil
	}
	callee := call.Call.StaticCallee()
	if callee == nil || callee.Blocks == nil || !pf.W.IsProduct(pkgOf(callee)) {
		return nil
	}
	var out []guardAtom
	for i, a := range call.Call.Args {
		if !(d.vals[a] || d.types[a]) || i >= len(callee.Params) {
			continue
		}
		var pd *derivation
		if d.types[a] {
			pd = &derivation{vals: map[ssa.Value]bool{}, types: map[ssa.Value]bool{}}
			sub := pf.derive(callee.Params[i], false)
			for v := range sub.vals {
				pd.types[v] = true
			}
			for v := range sub.types {
				pd.types[v] = true
			}
		} else {
			pd = pf.derive(callee.Params[i], false)
		}
		for _, b := range callee.Blocks {
			if len(b.Instrs) == 0 {
				continue
			}
			inner, ok := b.Instrs[len(b.Instrs)-1].(*ssa.If)
			if !ok {
				continue
			}
			kind, holdsOnTrue, ok := pf.classifyCond(inner.Cond, pd, 0)
			if !ok {
				// the helper hands the value to a helper of its own and passes the error on
				if pf.wrapDepth < 2 {
					pf.wrapDepth++
					nested := pf.wrapperAtoms(inner, pd)
					pf.wrapDepth--
					for _, na := range nested {
						failN := b.Succs[1-na.holdsOn]
						if !leadsToErrorReturn(failN, 0) {
							continue
						}
						holds := 1
						if bo.Op == token.EQL {
							holds = 0
						}
						out = append(out, guardAtom{kind: na.kind, ifi: ifi, holdsOn: holds})
					}
				}
				continue
			}
			fail := b.Succs[0]
			if holdsOnTrue {
				fail = b.Succs[1]
			}
			if !leadsToErrorReturn(fail, 0) {
				continue
			}
			// err == nil edge of the outer test
			holds := 1
			if bo.Op == token.EQL {
				holds = 0
			}
			out = append(out, guardAtom{kind: kind, ifi: ifi, holdsOn: holds})
		}
	}
	return out
}

// classifyCond: (atom kind, atom holds when cond is true?, ok)
func (pf *ParserFacts) classifyCond(c ssa.Value, d *derivation, depth int) (atomKind, bool, bool) {
	if depth > 4 {
		return "", false, false
	}
	switch x := c.(type) {
	case *ssa.UnOp:
		if x.Op == token.NOT {
			k, h, ok := pf.classifyCond(x.X, d, depth+1)
			return k, !h, ok
		}
	case *ssa.Call:
		name := ""
		var args []ssa.Value
		if callee := x.Call.StaticCallee(); callee != nil {
			name = callee.Name()
			args = x.Call.Args
		} else if x.Call.IsInvoke() {
			name = x.Call.Method.Name()
			args = append([]ssa.Value{x.Call.Value}, x.Call.Args...)
		}
		if name == "" && pf.bind != nil && !x.Call.IsInvoke() {
			// a predicate the reader was handed: what it says is read off the function handed over
			if fv, _, ok := pf.bind.resolve(x.Call.Value, 0); ok {
				if g := fnOfValue(fv); g != nil && len(g.Blocks) > 0 {
					for i, a := range x.Call.Args {
						if !(d.types[a] || d.vals[a]) || i >= len(g.Params) {
							continue
						}
						pd := &derivation{vals: map[ssa.Value]bool{}, types: map[ssa.Value]bool{}}
						sub := pf.derive(g.Params[i], false)
						if d.types[a] {
							for v := range sub.vals {
								pd.types[v] = true
							}
							for v := range sub.types {
								pd.types[v] = true
							}
						} else {
							pd = sub
						}
						prev := pf.bind
						pf.bind = nil
						kinds, ok := pf.truthKinds(g, pd)
						pf.bind = prev
						if ok {
							return anyOf(kinds), true, true
						}
					}
				}
			}
			return "", false, false
		}
		uses := false
		for _, a := range args {
			if d.types[a] || d.vals[a] {
				uses = true
			}
		}
		if !uses {
			return "", false, false
		}
		switch name {
		case "IsBool":
			return atomBool, true, true
		case "IsInt":
			return atomInt, true, true
		case "IsString":
			return atomString, true, true
		case "IsSlice":
			return atomSlice, true, true
		case "Equals":
			return atomEquals, true, true
		}
		if strings.HasPrefix(name, "Contains") && len(args) == 2 {
			// slices.Contains(allowedX(type), operator)
			if d.types[args[0]] {
				return atomOp, true, true
			}
		}
	case *ssa.BinOp:
		if !(d.types[x.X] || d.types[x.Y]) {
			return "", false, false
		}
		if x.Op != token.EQL && x.Op != token.NEQ && x.Op != token.GTR && x.Op != token.LSS && x.Op != token.GEQ && x.Op != token.LEQ {
			return "", false, false
		}
		eq := x.Op == token.EQL
		// what is compared?
		kindOf := func(v ssa.Value) string {
			if isNamed(v.Type(), "ValueType") {
				return "vt"
			}
			if isNamed(v.Type(), "DataType") {
				return "dt"
			}
			if isNamed(v.Type(), "StatementType") {
				return "tag"
			}
			if isInt(v.Type()) {
				return "int"
			}
			return "?"
		}
		switch kindOf(x.X) {
		case "vt":
			return atomEquals, eq, x.Op == token.EQL || x.Op == token.NEQ
		case "dt":
			// comparison against the "unknown" constant is a non-void test
			for _, side := range []ssa.Value{x.X, x.Y} {
				if k, ok := side.(*ssa.Const); ok && k.Value != nil && k.Value.Kind() == constant.String && constant.StringVal(k.Value) == "unknown" {
					return atomNonVoid, !eq, true
				}
				// comparison against the pseudo type of a call with several results
				if k, ok := side.(*ssa.Const); ok && k.Value != nil && k.Value.Kind() == constant.String && constant.StringVal(k.Value) == "multiple" {
					return atomSingle, !eq, true
				}
			}
			return atomDataType, eq, x.Op == token.EQL || x.Op == token.NEQ
		case "tag":
			return atomTag, eq, x.Op == token.EQL || x.Op == token.NEQ
		case "int":
			// len(list) compared: arity / non-void (len(ReturnTypes()) == 0)
			for _, side := range []ssa.Value{x.X, x.Y} {
				if k, ok := side.(*ssa.Const); ok && k.Value != nil && k.Int64() == 0 {
					return atomNonVoid, !eq, x.Op == token.EQL || x.Op == token.NEQ
				}
			}
			if _, isConst := x.X.(*ssa.Const); isConst {
				return "", false, false
			}
			if _, isConst := x.Y.(*ssa.Const); isConst {
				return "", false, false
			}
			switch x.Op {
			case token.EQL:
				return atomArity, true, true
			case token.NEQ:
				return atomArity, false, true
			default:
				return atomArity, false, true // range tests (>, <): the continuing side is the non-taken branch
			}
		}
	}
	return "", false, false
}

// reachableWithout: is target reachable from `from` when the given edges are removed?
// Branches on one and the same SSA condition value are taken consistently along a path
// (the value cannot change), which removes the infeasible paths of flag idioms.
func reachableWithout(fn *ssa.Function, cut map[[2]*ssa.BasicBlock]bool, target *ssa.BasicBlock) bool {
	return reachableFromWithout(fn.Blocks[0], cut, target)
}

func condOf(b *ssa.BasicBlock) (ssa.Value, bool) {
	if len(b.Instrs) == 0 {
		return nil, false
	}
	ifi, ok := b.Instrs[len(b.Instrs)-1].(*ssa.If)
	if !ok {
		return nil, false
	}
	c := ifi.Cond
	neg := false
	for {
		u, ok := c.(*ssa.UnOp)
		if !ok || u.Op != token.NOT {
			break
		}
		c = u.X
		neg = !neg
	}
	return c, neg
}

// guardedBy: every path to the slot store establishes one of the accepted atoms on v.
// For list slots a guard inside a loop whose header dominates the store is accepted
// when its failing edge is an error exit.
func (pf *ParserFacts) guardedBy(s SlotStore, v ssa.Value, accepted ...atomKind) (bool, string) {
	return pf.guardedByIdx(s, v, -1, accepted...)
}

func (pf *ParserFacts) guardedByIdx(s SlotStore, v ssa.Value, onlyIdx int64, accepted ...atomKind) (bool, string) {
	fn := s.Fn
	d := pf.deriveIdx(v, s.List, onlyIdx)
	atoms := pf.atomsOn(fn, d)
	acc := map[atomKind]bool{}
	for _, k := range accepted {
		acc[k] = true
	}
	cut := map[[2]*ssa.BasicBlock]bool{}
	var used []string
	target := s.Instr.Block()
	loops := naturalLoops(fn)
	var loopSkips []string
	for _, a := range atoms {
		if !acceptsAtom(acc, a.kind) {
			continue
		}
		b := a.ifi.Block()
		pass, fail := b.Succs[a.holdsOn], b.Succs[1-a.holdsOn]
		cut[[2]*ssa.BasicBlock{b, pass}] = true
		used = append(used, string(a.kind))
		if os.Getenv("VERIF_DEBUG") == "guard" {
			hdr := loops[b]
			fmt.Fprintf(os.Stderr, "GUARD %s atom %s at %s loop=%v domTarget=%v failErr=%v\n", s.Key(), a.kind, pf.W.Pos(a.ifi.Cond.Pos()), hdr != nil, hdr != nil && hdr.Dominates(target), leadsToErrorReturn(fail, 0))
		}
		// loop guard (lists): failing edge must be an error exit, the loop must come before the store
		if hdr := loops[b]; hdr != nil && (hdr.Dominates(target) || pf.loopOnEveryPath(fn, v, hdr, target)) && !loops2(loops, target, hdr) && leadsToErrorReturn(fail, 0) {
			// every iteration passes the test: no path from the start of the body back to the
			// loop header avoids the passing edge of the guard
			body := loopBody(hdr)
			lcut := map[[2]*ssa.BasicBlock]bool{{b, pass}: true}
			for blk := range body {
				for _, sc := range blk.Succs {
					if !body[sc] {
						lcut[[2]*ssa.BasicBlock{blk, sc}] = true
					}
				}
			}
			// an iteration that hands the element's type to its untyped counterpart
			// (variables[i].valueType = valueType) makes the two equal without a test
			adopted := 0
			for blk := range body {
				for _, ins := range blk.Instrs {
					st, ok := ins.(*ssa.Store)
					if !ok || !d.types[st.Val] {
						continue
					}
					if _, ok := st.Addr.(*ssa.FieldAddr); !ok {
						continue
					}
					adopted++
					for _, sc := range blk.Succs {
						lcut[[2]*ssa.BasicBlock{blk, sc}] = true
					}
				}
			}
			skipped := false
			for _, sc := range hdr.Succs {
				if body[sc] && sc != hdr && reachableFromWithout(sc, lcut, hdr) {
					skipped = true
				}
			}
			if skipped {
				loopSkips = append(loopSkips, string(a.kind))
				continue
			}
			how := "passed by every iteration"
			if adopted > 0 {
				how = "passed by every iteration that does not hand the element's type to an untyped counterpart"
				// handing a type on is only sound for a value that has one: the element must be
				// known to be non-void (tested here or in the function that produced the list)
				if pf.slotIsExprList(s) && (!acc[atomNonVoid] || len(accepted) > 1) {
					okNV, whyNV := pf.producerGuard(v, atomNonVoid)
					if os.Getenv("VERIF_DEBUG") == "guard" {
						fmt.Fprintf(os.Stderr, "NONVOID %s v=%s (%T) producer=%v %s\n", s.Key(), v.String(), v, okNV, whyNV)
					}
					if !okNV {
						okNV, _ = pf.guardedByIdx(s, v, onlyIdx, atomNonVoid)
					}
					if !okNV {
						return false, "an untyped counterpart takes over the element's type, but nothing establishes that the element has a value: a call without results (also wrapped in brackets) leaves the variable untyped"
					}
					how += "; elements are tested for having a value where the list is produced"
				}
			}
			return true, "guard " + string(a.kind) + " in a loop over the values, " + how + ", error exit on failure"
		}
	}
	// "string" established by the data type alone also admits []string: where the data-type
	// comparison is what is relied on, the not-a-slice edge of an IsSlice test must lie on
	// the path as well (String = IsString, or DataType == string together with !IsSlice)
	if acc[atomDataType] && !acc[atomSlice] {
		usesDT := false
		for _, a := range atoms {
			if a.kind == atomDataType {
				usesDT = true
			}
		}
		if usesDT {
			cut2 := map[[2]*ssa.BasicBlock]bool{}
			for _, a := range atoms {
				b := a.ifi.Block()
				switch a.kind {
				case atomString:
					cut2[[2]*ssa.BasicBlock{b, b.Succs[a.holdsOn]}] = true
				case atomSlice:
					cut2[[2]*ssa.BasicBlock{b, b.Succs[1-a.holdsOn]}] = true // the edge on which the value is not a slice
				}
			}
			from := defBlock(fn, v)
			if from == target || reachableFromWithout(from, cut2, target) {
				return false, "the value's data type is compared with string, but nothing excludes a slice of strings on that path (IsString, or the not-a-slice edge of IsSlice, is missing)"
			}
		}
	}
	if len(loopSkips) > 0 {
		return false, "the loop that tests " + strings.Join(uniq(loopSkips), "/") + " on the elements lets some iterations reach the next element without passing the test (a continue / early branch skips it)"
	}
	if len(cut) == 0 {
		return false, "no test of kind " + fmt.Sprint(accepted) + " on the value's type"
	}
	// same-block order: the guard's If terminates its block, so a store in a later block is after it
	from := defBlock(fn, v)
	if from == target {
		// value produced and stored in one block: a test can only lie in between if the block ends with it – it does not
		if !reachableFromWithout(fn.Blocks[0], cut, target) {
			return true, "every path to the construction passes a test " + strings.Join(uniq(used), "/")
		}
		return false, "value is stored in the block that produces it, before any test"
	}
	if !reachableFromWithout(from, cut, target) {
		return true, "every path from the value to the construction passes a test " + strings.Join(uniq(used), "/")
	}
	return false, "a path reaches the construction without passing the test (" + strings.Join(uniq(used), "/") + " is checked on some paths only)"
}

// naturalLoops: block -> innermost loop header containing it.
func naturalLoops(fn *ssa.Function) map[*ssa.BasicBlock]*ssa.BasicBlock {
	out := map[*ssa.BasicBlock]*ssa.BasicBlock{}
	size := map[*ssa.BasicBlock]int{}
	for _, b := range fn.Blocks {
		for _, s := range b.Succs {
			if !s.Dominates(b) {
				continue
			}
			body := map[*ssa.BasicBlock]bool{s: true}
			stack := []*ssa.BasicBlock{b}
			for len(stack) > 0 {
				n := stack[len(stack)-1]
				stack = stack[:len(stack)-1]
				if body[n] {
					continue
				}
				body[n] = true
				stack = append(stack, n.Preds...)
			}
			for n := range body {
				if cur, ok := out[n]; !ok || len(body) < size[cur] {
					out[n] = s
					size[s] = len(body)
				}
			}
		}
	}
	return out
}

// loopBody: the blocks of the natural loop(s) with the given header.
func loopBody(hdr *ssa.BasicBlock) map[*ssa.BasicBlock]bool {
	body := map[*ssa.BasicBlock]bool{hdr: true}
	for _, p := range hdr.Preds {
		if !hdr.Dominates(p) {
			continue
		}
		stack := []*ssa.BasicBlock{p}
		for len(stack) > 0 {
			n := stack[len(stack)-1]
			stack = stack[:len(stack)-1]
			if body[n] {
				continue
			}
			body[n] = true
			stack = append(stack, n.Preds...)
		}
	}
	return body
}

func loops2(loops map[*ssa.BasicBlock]*ssa.BasicBlock, b, hdr *ssa.BasicBlock) bool {
	return loops[b] == hdr
}

// postGuardedBy: a guard on the constructed node W (whose type delegates to the slot)
// placed after the construction and before every success return.
func (pf *ParserFacts) postGuardedBy(s SlotStore, accepted ...atomKind) (bool, string) {
	// the node is built by a constructor that is handed the value (minusOne(x)): what the call
	// hands back is the node, tested afterwards through its delegated type
	if call, isCall := s.Instr.(*ssa.Call); isCall {
		info := pf.typeInfo[s.Node]
		if info.kind != "delegate" || info.field != s.Field {
			return false, ""
		}
		acc := map[atomKind]bool{}
		for _, k := range accepted {
			acc[k] = true
		}
		d := pf.derive(call, false)
		cut := map[[2]*ssa.BasicBlock]bool{}
		if os.Getenv("VERIF_DEBUG_POST") != "" {
			fmt.Fprintf(os.Stderr, "POSTCALL %s.%s in %s: vals=%d types=%d atoms=%d\n", s.Node, s.Field, s.Fn.Name(), len(d.vals), len(d.types), len(pf.atomsOn(s.Fn, d)))
		}
		for _, a := range pf.atomsOn(s.Fn, d) {
			if acc[a.kind] {
				b := a.ifi.Block()
				cut[[2]*ssa.BasicBlock{b, b.Succs[a.holdsOn]}] = true
			}
		}
		if len(cut) == 0 {
			return false, ""
		}
		for _, b := range s.Fn.Blocks {
			ret, isRet := b.Instrs[len(b.Instrs)-1].(*ssa.Return)
			if !isRet || isErrorReturn(ret) {
				continue
			}
			if reachableFromWithout(call.Block(), cut, b) {
				return false, ""
			}
		}
		return true, "checked after the constructor call through the node's delegated type, before every success return"
	}
	st, ok := s.Instr.(*ssa.Store)
	if !ok {
		return false, ""
	}
	fa, ok := st.Addr.(*ssa.FieldAddr)
	if !ok {
		return false, ""
	}
	al, ok := fa.X.(*ssa.Alloc)
	if !ok {
		return false, ""
	}
	info := pf.typeInfo[s.Node]
	if info.kind != "delegate" || info.field != s.Field {
		return false, ""
	}
	// the node value: load of the literal, converted to an interface
	for _, r := range *al.Referrers() {
		u, ok := r.(*ssa.UnOp)
		if !ok {
			continue
		}
		for _, r2 := range *u.Referrers() {
			mi, ok := r2.(*ssa.MakeInterface)
			if !ok {
				continue
			}
			d := pf.derive(mi, false)
			acc := map[atomKind]bool{}
			for _, k := range accepted {
				acc[k] = true
			}
			cut := map[[2]*ssa.BasicBlock]bool{}
			for _, a := range pf.atomsOn(s.Fn, d) {
				if acc[a.kind] {
					b := a.ifi.Block()
					cut[[2]*ssa.BasicBlock{b, b.Succs[a.holdsOn]}] = true
				}
			}
			if len(cut) == 0 {
				continue
			}
			// no success return reachable from the construction without passing the test
			okAll := true
			for _, b := range s.Fn.Blocks {
				ret, isRet := b.Instrs[len(b.Instrs)-1].(*ssa.Return)
				if !isRet || isErrorReturn(ret) {
					continue
				}
				if reachableFromWithout(st.Block(), cut, b) {
					okAll = false
				}
			}
			if okAll {
				return true, "checked after construction through the node's delegated type, before every success return"
			}
		}
	}
	return false, ""
}

func reachableFromWithout(from *ssa.BasicBlock, cut map[[2]*ssa.BasicBlock]bool, target *ssa.BasicBlock) bool {
	// conditions tested more than once in the function are tracked
	fn := from.Parent()
	uses := map[ssa.Value]int{}
	for _, b := range fn.Blocks {
		if c, _ := condOf(b); c != nil {
			uses[c]++
		}
	}
	type state struct {
		b   *ssa.BasicBlock
		key string
	}
	// phis that are compared with nil: their incoming value is tracked along the path
	nilPhis := map[*ssa.Phi]bool{}
	for _, b := range fn.Blocks {
		if c, _ := condOf(b); c != nil {
			if bo, ok := c.(*ssa.BinOp); ok && (bo.Op == token.EQL || bo.Op == token.NEQ) {
				if k, ok := bo.Y.(*ssa.Const); ok && k.IsNil() {
					if ph, ok := bo.X.(*ssa.Phi); ok {
						nilPhis[ph] = true
					}
				}
			}
		}
	}
	// bool phis used as a condition (flag idiom: appended := false … appended = true … if !appended)
	for _, b := range fn.Blocks {
		if c, _ := condOf(b); c != nil {
			if ph, ok := c.(*ssa.Phi); ok && isBool(ph.Type()) {
				nilPhis[ph] = true
			}
		}
	}
	// phis compared with a constant (a counter tested before and at the head of a loop): on the
	// way on which the phi still holds the value an earlier test looked at, both tests agree
	var constCmps []*ssa.BinOp
	for _, b := range fn.Blocks {
		if c, _ := condOf(b); c != nil {
			if bo, ok := c.(*ssa.BinOp); ok {
				if k, ok := bo.Y.(*ssa.Const); ok && !k.IsNil() && k.Value != nil {
					constCmps = append(constCmps, bo)
					if ph, ok := bo.X.(*ssa.Phi); ok {
						nilPhis[ph] = true
					}
				}
			}
		}
	}
	for _, bo := range constCmps {
		ph, ok := bo.X.(*ssa.Phi)
		if !ok {
			continue
		}
		for _, e := range ph.Edges {
			for _, o := range constCmps {
				if o != bo && o.Op == bo.Op && o.X == e {
					uses[o] += 2
					uses[bo] += 2
				}
			}
		}
	}
	sameTest := func(c ssa.Value, pv map[*ssa.Phi]ssa.Value) ssa.Value {
		bo, ok := c.(*ssa.BinOp)
		if !ok {
			return c
		}
		ph, ok := bo.X.(*ssa.Phi)
		if !ok {
			return c
		}
		v, ok := pv[ph]
		if !ok {
			return c
		}
		k, ok := bo.Y.(*ssa.Const)
		if !ok || k.Value == nil {
			return c
		}
		for _, o := range constCmps {
			if o != bo && o.Op == bo.Op && o.X == v {
				if ok2, isK := o.Y.(*ssa.Const); isK && ok2.Value != nil && constant.Compare(ok2.Value, token.EQL, k.Value) {
					return o
				}
			}
		}
		return c
	}
	nilness := func(v ssa.Value) (bool, bool) { // (isNil, known)
		switch x := v.(type) {
		case *ssa.Const:
			return x.IsNil(), true
		case *ssa.MakeInterface:
			return false, true
		case *ssa.Call:
			// a constructor: every return hands back a node it has just built
			if callee := x.Call.StaticCallee(); callee != nil && callee.Blocks != nil && callee.Signature.Results().Len() == 1 {
				n := 0
				for _, cb := range callee.Blocks {
					if ret, ok := cb.Instrs[len(cb.Instrs)-1].(*ssa.Return); ok {
						if _, isMI := ret.Results[0].(*ssa.MakeInterface); !isMI {
							return false, false
						}
						n++
					}
				}
				if n > 0 {
					return false, true
				}
			}
		}
		return false, false
	}
	seen := map[state]bool{}
	var dfs func(b, prev *ssa.BasicBlock, asg map[ssa.Value]bool, pv map[*ssa.Phi]ssa.Value, first bool) bool
	dfs = func(b, prev *ssa.BasicBlock, asg map[ssa.Value]bool, pv map[*ssa.Phi]ssa.Value, first bool) bool {
		if b == target && !first {
			return true
		}
		// phi values on entry
		if prev != nil && len(nilPhis) > 0 {
			var changed map[*ssa.Phi]ssa.Value
			for _, ins := range b.Instrs {
				ph, ok := ins.(*ssa.Phi)
				if !ok {
					break
				}
				if !nilPhis[ph] {
					continue
				}
				for i, p := range b.Preds {
					if p == prev {
						if changed == nil {
							changed = map[*ssa.Phi]ssa.Value{}
							for k, v := range pv {
								changed[k] = v
							}
						}
						e := ph.Edges[i]
						if inner, ok := e.(*ssa.Phi); ok {
							if iv, ok := pv[inner]; ok {
								e = iv
							}
						}
						changed[ph] = e
					}
				}
			}
			if changed != nil {
				pv = changed
			}
		}
		var ks []string
		for v, t := range asg {
			ks = append(ks, fmt.Sprintf("%s=%v", v.Name(), t))
		}
		for ph, v := range pv {
			ks = append(ks, fmt.Sprintf("%s:=%s", ph.Name(), v.Name()))
		}
		sort.Strings(ks)
		st := state{b, strings.Join(ks, ",")}
		if seen[st] {
			return false
		}
		seen[st] = true
		c, neg := condOf(b)
		// nil test on a tracked phi
		forced := -1
		if bo, ok := c.(*ssa.BinOp); ok && (bo.Op == token.EQL || bo.Op == token.NEQ) {
			if k, ok := bo.Y.(*ssa.Const); ok && k.IsNil() {
				if ph, ok := bo.X.(*ssa.Phi); ok {
					if v, ok := pv[ph]; ok {
						if isNil, known := nilness(v); known {
							condTrue := (bo.Op == token.EQL) == isNil
							if neg {
								condTrue = !condTrue
							}
							forced = 1
							if condTrue {
								forced = 0
							}
						}
					}
				}
			}
		}
		if ph, ok := c.(*ssa.Phi); ok && isBool(ph.Type()) {
			if v, ok := pv[ph]; ok {
				if k, ok := v.(*ssa.Const); ok && k.Value != nil && k.Value.Kind() == constant.Bool {
					condTrue := constant.BoolVal(k.Value)
					if neg {
						condTrue = !condTrue
					}
					forced = 1
					if condTrue {
						forced = 0
					}
				}
			}
		}
		for i, s := range b.Succs {
			if cut[[2]*ssa.BasicBlock{b, s}] {
				continue
			}
			if forced >= 0 && i != forced {
				continue
			}
			next := asg
			if c != nil {
				if c2 := sameTest(c, pv); c2 != c {
					c = c2
					uses[c] += 2
				}
			}
			if c != nil && len(b.Succs) == 2 && (uses[c] > 1) && b.Succs[0] != b.Succs[1] {
				val := (i == 0) != neg // value of c on this edge
				if old, ok := asg[c]; ok {
					if old != val {
						continue // contradicts an earlier branch on the same value
					}
				} else {
					next = map[ssa.Value]bool{}
					for k, v := range asg {
						next[k] = v
					}
					next[c] = val
				}
			}
			if s == target {
				return true
			}
			if dfs(s, b, next, pv, false) {
				return true
			}
		}
		return false
	}
	return dfs(from, nil, map[ssa.Value]bool{}, map[*ssa.Phi]ssa.Value{}, true)
}

// defBlock: the block after which v is available (entry for parameters and constants).
func defBlock(fn *ssa.Function, v ssa.Value) *ssa.BasicBlock {
	if ins, ok := v.(ssa.Instruction); ok && ins.Block() != nil && ins.Parent() == fn {
		return ins.Block()
	}
	return fn.Blocks[0]
}

// ---- origins -----------------------------------------------------------------------------

type origin struct {
	kind string // "node" (constructed in place), "nil", "value"
	node string
	lit  *ssa.Alloc
	val  ssa.Value
}

// origins resolves a stored value backwards to the places its content comes from.
func (pf *ParserFacts) origins(v ssa.Value, seen map[ssa.Value]bool) []origin {
	if seen[v] {
		return nil
	}
	seen[v] = true
	switch x := v.(type) {
	case *ssa.MakeInterface:
		name := namedName(x.X.Type())
		if _, ok := pf.NodeTypes[name]; ok {
			var lit *ssa.Alloc
			if u, ok := x.X.(*ssa.UnOp); ok {
				lit, _ = u.X.(*ssa.Alloc)
			}
			if c, ok := x.X.(*ssa.Call); ok && lit == nil {
				_ = c
			}
			return []origin{{kind: "node", node: name, lit: lit, val: x}}
		}
		return pf.origins(x.X, seen)
	case *ssa.ChangeInterface:
		return pf.origins(x.X, seen)
	case *ssa.Const:
		if x.IsNil() {
			return []origin{{kind: "nil"}}
		}
	case *ssa.Phi:
		var out []origin
		for i, e := range x.Edges {
			if i < len(x.Block().Preds) && knownNilOnEdge(e, x.Block().Preds[i], x.Block()) {
				// the edge is only taken on the nil side of a test of this very value
				out = append(out, origin{kind: "nil"})
				continue
			}
			out = append(out, pf.origins(e, seen)...)
		}
		return out
	}
	return []origin{{kind: "value", val: v}}
}

// knownNilOnEdge: the control edge pred→blk lies on the nil side of a test v == nil / v != nil
// (if endIndex != nil { endIndex = … } leaves the old value only where it is nil).
func knownNilOnEdge(v ssa.Value, pred, blk *ssa.BasicBlock) bool {
	for d := pred; d != nil; d = d.Idom() {
		if len(d.Instrs) == 0 || len(d.Succs) != 2 {
			continue
		}
		ifi, ok := d.Instrs[len(d.Instrs)-1].(*ssa.If)
		if !ok {
			continue
		}
		bo, ok := ifi.Cond.(*ssa.BinOp)
		if !ok || (bo.Op != token.EQL && bo.Op != token.NEQ) {
			continue
		}
		var other ssa.Value
		switch {
		case bo.X == v:
			other = bo.Y
		case bo.Y == v:
			other = bo.X
		default:
			continue
		}
		if k, ok := other.(*ssa.Const); !ok || !k.IsNil() {
			continue
		}
		nilSucc, otherSucc := d.Succs[0], d.Succs[1]
		if bo.Op == token.NEQ {
			nilSucc, otherSucc = otherSucc, nilSucc
		}
		if d == pred && nilSucc == blk && otherSucc != blk {
			return true
		}
		if nilSucc != blk && len(nilSucc.Preds) == 1 && nilSucc.Dominates(pred) {
			return true
		}
	}
	return false
}

// intrinsicType: the constant type of a node constructed in place, following delegation.
func (pf *ParserFacts) intrinsicType(o origin, depth int) (string, bool, bool) {
	if depth > 4 {
		return "", false, false
	}
	info := pf.typeInfo[o.node]
	switch info.kind {
	case "const":
		return info.dataType, info.slice, true
	case "delegate":
		if o.lit == nil {
			return "", false, false
		}
		for _, r := range *o.lit.Referrers() {
			fa, ok := r.(*ssa.FieldAddr)
			if !ok || structFieldName(fa.X.Type(), fa.Field) != info.field {
				continue
			}
			for _, rr := range *fa.Referrers() {
				if st, ok := rr.(*ssa.Store); ok {
					os := pf.origins(st.Val, map[ssa.Value]bool{})
					if len(os) == 1 && os[0].kind == "node" {
						return pf.intrinsicType(os[0], depth+1)
					}
				}
			}
		}
	}
	return "", false, false
}

func init() {
	dumpers["slots"] = func(w *World, args []string) {
		pf, err := BuildParserFacts(w)
		if err != nil {
			fmt.Println("ERROR", err)
			return
		}
		for _, s := range pf.Slots {
			var os []string
			for _, o := range pf.origins(s.Val, map[ssa.Value]bool{}) {
				switch o.kind {
				case "node":
					dt, sl, ok := pf.intrinsicType(o, 0)
					os = append(os, fmt.Sprintf("node:%s(%s,%v,%v)", o.node, dt, sl, ok))
				case "nil":
					os = append(os, "nil")
				default:
					os = append(os, "value:"+o.val.Name())
				}
			}
			fmt.Printf("%-40s %-28s %-8s list=%-5v %s  [%s]\n", FuncName(s.Fn), s.Key(), s.Via, s.List, strings.Join(os, ","), w.Pos(s.Instr.Pos()))
		}
		fmt.Println("slots:", len(pf.Slots))
		var names []string
		for n, i := range pf.typeInfo {
			names = append(names, fmt.Sprintf("%s=%s/%s/%v/%s", n, i.kind, i.dataType, i.slice, i.field))
		}
		sort.Strings(names)
		fmt.Println(strings.Join(names, "\n"))
	}
}

// slotIsExprList: the node field behind the slot is a list of expressions (not a single call
// whose declared result types are compared).
func (pf *ParserFacts) slotIsExprList(s SlotStore) bool {
	named := pf.NodeTypes[s.Node]
	if named == nil {
		return false
	}
	st, ok := named.Underlying().(*types.Struct)
	if !ok {
		return false
	}
	for i := 0; i < st.NumFields(); i++ {
		if st.Field(i).Name() == s.Field {
			_, list := pf.exprLike(st.Field(i).Type())
			return list
		}
	}
	return false
}

// loopOnEveryPath: every path from the definition of v to target enters the loop with this
// header (the loop need not dominate target when the value itself only exists on one branch).
func (pf *ParserFacts) loopOnEveryPath(fn *ssa.Function, v ssa.Value, hdr, target *ssa.BasicBlock) bool {
	from := defBlock(fn, v)
	if from == target {
		return false
	}
	cut := map[[2]*ssa.BasicBlock]bool{}
	for _, p := range hdr.Preds {
		cut[[2]*ssa.BasicBlock{p, hdr}] = true
	}
	return !reachableFromWithout(from, cut, target)
}
