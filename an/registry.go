package an

import "fmt"

// Registry maps a property id to the function running its rules.
var Registry = map[string]func(w *World) *Result{}

// Thorough adds the thorough-tier work (second platform load, cross references).
func Thorough(w *World, prop string, res *Result, extra map[string]any) {
	// reload for windows: no product file is build-tagged today; the sweep guards
	// against that changing (a tagged file would be invisible to the quick tier).
	w2, err := Load(w.Repo, "windows")
	if err != nil {
		res.Bad("R-E0-goos", "load:GOOS=windows", "-", fmt.Sprintf("product packages do not load for GOOS=windows: %v", err))
		return
	}
	if run, ok := Registry[prop]; ok {
		r2 := run(w2)
		bad := 0
		for _, o := range r2.Obs {
			if !o.OK {
				bad++
				o.Detail = "[GOOS=windows] " + o.Detail
				res.add(o)
			}
		}
		extra["goos_windows"] = map[string]any{"obligations": len(r2.Obs), "violations": bad}
	}
}

// Dump prints internal analysis artefacts for debugging.
func Dump(w *World, what string, args []string) {
	if f, ok := dumpers[what]; ok {
		f(w, args)
		return
	}
	fmt.Println("unknown dump:", what)
}

var dumpers = map[string]func(w *World, args []string){}
