package an

import (
	"fmt"
	"go/ast"
	"go/constant"
	"go/token"
	"go/types"
	"regexp/syntax"
	"sort"
	"strings"

	"golang.org/x/tools/go/ssa"
)

func init() {
	Registry["C11"] = runC11
	Registry["C12"] = runC12
}

// ---- regex syntax-tree helpers ------------------------------------------------

func anchoredAtStart(t *syntax.Regexp) bool {
	switch t.Op {
	case syntax.OpBeginText:
		return true
	case syntax.OpBeginLine:
		return true
	case syntax.OpConcat:
		return len(t.Sub) > 0 && anchoredAtStart(t.Sub[0])
	case syntax.OpCapture:
		return anchoredAtStart(t.Sub[0])
	case syntax.OpAlternate:
		for _, s := range t.Sub {
			if !anchoredAtStart(s) {
				return false
			}
		}
		return len(t.Sub) > 0
	}
	return false
}

func endsWithWordBoundary(t *syntax.Regexp) bool {
	switch t.Op {
	case syntax.OpWordBoundary:
		return true
	case syntax.OpConcat:
		return len(t.Sub) > 0 && endsWithWordBoundary(t.Sub[len(t.Sub)-1])
	case syntax.OpCapture:
		return endsWithWordBoundary(t.Sub[0])
	}
	return false
}

// canMatchNewline: some string of the language contains '\n'.
func canMatchNewline(t *syntax.Regexp) bool {
	switch t.Op {
	case syntax.OpAnyChar:
		return true
	case syntax.OpAnyCharNotNL:
		return false
	case syntax.OpLiteral:
		for _, r := range t.Rune {
			if r == '\n' {
				return true
			}
		}
		return false
	case syntax.OpCharClass:
		for i := 0; i+1 < len(t.Rune); i += 2 {
			if t.Rune[i] <= '\n' && '\n' <= t.Rune[i+1] {
				return true
			}
		}
		return false
	}
	for _, s := range t.Sub {
		if canMatchNewline(s) {
			return true
		}
	}
	return false
}

// firstRunes: the set of runes a match can start with (after ^), as ranges; ok=false if unbounded.
func firstRunes(t *syntax.Regexp) ([]rune, bool, bool) { // ranges, nullable, ok
	switch t.Op {
	case syntax.OpBeginText, syntax.OpBeginLine, syntax.OpEmptyMatch, syntax.OpWordBoundary, syntax.OpNoWordBoundary, syntax.OpEndText, syntax.OpEndLine:
		return nil, true, true
	case syntax.OpLiteral:
		if len(t.Rune) == 0 {
			return nil, true, true
		}
		return []rune{t.Rune[0], t.Rune[0]}, false, true
	case syntax.OpCharClass:
		return append([]rune{}, t.Rune...), false, true
	case syntax.OpAnyChar, syntax.OpAnyCharNotNL:
		return []rune{0, 0x10FFFF}, false, true
	case syntax.OpCapture:
		return firstRunes(t.Sub[0])
	case syntax.OpStar, syntax.OpQuest:
		r, _, ok := firstRunes(t.Sub[0])
		return r, true, ok
	case syntax.OpPlus:
		return firstRunes(t.Sub[0])
	case syntax.OpRepeat:
		r, n, ok := firstRunes(t.Sub[0])
		return r, n || t.Min == 0, ok
	case syntax.OpAlternate:
		var out []rune
		null := false
		for _, s := range t.Sub {
			r, n, ok := firstRunes(s)
			if !ok {
				return nil, false, false
			}
			out = append(out, r...)
			null = null || n
		}
		return out, null, true
	case syntax.OpConcat:
		var out []rune
		for _, s := range t.Sub {
			r, n, ok := firstRunes(s)
			if !ok {
				return nil, false, false
			}
			out = append(out, r...)
			if !n {
				return out, false, true
			}
		}
		return out, true, true
	}
	return nil, false, false
}

func rangesContain(rs []rune, c rune) bool {
	for i := 0; i+1 < len(rs); i += 2 {
		if rs[i] <= c && c <= rs[i+1] {
			return true
		}
	}
	return false
}

// onlyRunesIn: every rune the regex can consume lies in the class.
func onlyRunesIn(t *syntax.Regexp, class []rune) bool {
	switch t.Op {
	case syntax.OpLiteral:
		for _, r := range t.Rune {
			if !rangesContain(class, r) {
				return false
			}
		}
		return true
	case syntax.OpCharClass:
		for i := 0; i+1 < len(t.Rune); i += 2 {
			for c := t.Rune[i]; c <= t.Rune[i+1]; c++ {
				if !rangesContain(class, c) {
					return false
				}
				if c-t.Rune[i] > 300 {
					return false
				}
			}
		}
		return true
	case syntax.OpAnyChar, syntax.OpAnyCharNotNL:
		return false
	}
	for _, s := range t.Sub {
		if !onlyRunesIn(s, class) {
			return false
		}
	}
	return true
}

// greedyDotBeforeTerminator: a greedy .* (or .+) followed by a literal terminator.
func greedyDotBeforeTerminator(t *syntax.Regexp) (bool, string) {
	if t.Op == syntax.OpCapture {
		return greedyDotBeforeTerminator(t.Sub[0])
	}
	if t.Op != syntax.OpConcat {
		for _, s := range t.Sub {
			if g, term := greedyDotBeforeTerminator(s); g {
				return g, term
			}
		}
		return false, ""
	}
	for i, s := range t.Sub {
		inner := s
		for inner.Op == syntax.OpCapture {
			inner = inner.Sub[0]
		}
		if (inner.Op == syntax.OpStar || inner.Op == syntax.OpPlus) && inner.Flags&syntax.NonGreedy == 0 {
			if inner.Sub[0].Op == syntax.OpAnyChar || inner.Sub[0].Op == syntax.OpAnyCharNotNL {
				// followed by a literal terminator?
				for _, rest := range t.Sub[i+1:] {
					if rest.Op == syntax.OpLiteral && len(rest.Rune) > 0 {
						return true, string(rest.Rune)
					}
				}
			}
		}
	}
	return false, ""
}

// ---- AST helpers over Tokenize --------------------------------------------------

// mainLoop returns the outer for statement of the scanning function.
func mainLoop(fd *ast.FuncDecl) *ast.ForStmt {
	for _, st := range fd.Body.List {
		if f, ok := st.(*ast.ForStmt); ok {
			return f
		}
	}
	return nil
}

// arms returns the branches of the first if / else-if chain of the loop body
// (the ordered probes), each with its condition and body.
type lexArm struct {
	Cond ast.Expr
	Init ast.Stmt
	Body *ast.BlockStmt
	Pos  token.Pos
}

func probeArms(loop *ast.ForStmt) []lexArm {
	var arms []lexArm
	for _, st := range loop.Body.List {
		ifs, ok := st.(*ast.IfStmt)
		if !ok {
			continue
		}
		for cur := ifs; cur != nil; {
			arms = append(arms, lexArm{Cond: cur.Cond, Init: cur.Init, Body: cur.Body, Pos: cur.Pos()})
			next, ok := cur.Else.(*ast.IfStmt)
			if !ok {
				break
			}
			cur = next
		}
		if len(arms) > 1 {
			return arms
		}
		arms = nil
	}
	return arms
}

func containsNode(root ast.Node, pred func(ast.Node) bool) bool {
	found := false
	ast.Inspect(root, func(n ast.Node) bool {
		if n != nil && pred(n) {
			found = true
		}
		return !found
	})
	return found
}

func within(n ast.Node, pos token.Pos) bool { return n != nil && n.Pos() <= pos && pos <= n.End() }

func runC11(w *World) *Result {
	r := NewResult("C11")
	r.Explanation = "Decides structural conditions of faithful tokenisation from the lexer's syntax tree, types and regex syntax trees (regexp/syntax): (table) in the first-match punctuation table a longer entry precedes every entry that is its proper prefix, and every token type the parser tests for is producible; (regex) every probe applied to the rest of the input is ^-anchored, a probe that can match identifier-like words ends in a word boundary, a comment probe with an explicit terminator is non-greedy; (bytes) no byte→string conversion (re-encodes bytes ≥ 0x80); (pos) every arm that can consume a newline updates the row counter; (errors) unterminated string / unknown character arms end in an error."
	r.NotDecided = "equality with a reference scanner over all character sequences (needs execution); multi-character escapes such as \\x41 / \\u00e9 are rejected by the pair-wise escape decoder (recorded finding)."
	r.Rule("R-C11-table", "punctuation table: longer-before-prefix; parser-tested token types are producible", 10)
	r.Rule("R-C11-regex", "probes: anchored; identifier-like probes end in \\b; terminated comment probe non-greedy", 3)
	r.Rule("R-C11-bytes", "no uint8→string conversion in the lexer; the one-character accessor returns the character at every position below the length", 2)
	CharAccessRule(w, r, "R-C11-bytes")
	r.Rule("R-C11-int", "integer literals keep their value: parsed by an integer parser, never through a floating-point type", 1)
	IntLiteralRule(w, r, "R-C11-int")
	DelimiterSearchRule(w, r, "R-C11-regex")
	r.Rule("R-C11-sign", "the operator - is recognised after an operand whatever separates them: the probe that can start with a sign is conditioned on the previous token that was kept, and on every token type that can end an integer operand", 2)
	SignRule(w, r, "R-C11-sign")
	r.Rule("R-C11-pos", "arms that can consume \\n assign the row counter, and compute every position update from the consumed source text (not the decoded value)", 5)
	r.Rule("R-C11-errors", "unterminated string and unknown character end in an error exit", 2)
	r.Rule("R-C11-escapes", "escape sequences are decoded for their full length", 1)
	lf, err := BuildLexFacts(w)
	if err != nil {
		r.Bad("R-C11-table", "lexer:facts", "-", err.Error())
		return r
	}
	r.Analysed["regexes"] = len(lf.Regexes)
	r.Analysed["punctuation_entries"] = len(lf.Punct)
	r.Analysed["keywords"] = len(lf.Keywords)
	pkg := w.Pkgs["lexer"]
	info := pkg.TypesInfo
	// --- table
	for i, a := range lf.Punct {
		for j, b := range lf.Punct {
			if i < j && strings.HasPrefix(b.Value, a.Value) && len(b.Value) > len(a.Value) {
				r.Bad("R-C11-table", fmt.Sprintf("table:order:%q<%q", a.Value, b.Value), w.Pos(b.Pos), fmt.Sprintf("first-match table lists %q before %q of which it is a proper prefix: %q can never be produced", a.Value, b.Value, b.Value))
			}
		}
	}
	for i, b := range lf.Punct {
		hasShorter := false
		for j, a := range lf.Punct {
			if j != i && strings.HasPrefix(b.Value, a.Value) && len(b.Value) > len(a.Value) {
				hasShorter = true
				if j > i {
					r.Ok("R-C11-table", fmt.Sprintf("table:order:%q>%q", b.Value, a.Value), w.Pos(b.Pos), "longer entry precedes its prefix")
				}
			}
		}
		_ = hasShorter
	}
	// duplicates
	seenVal := map[string]bool{}
	for _, e := range lf.Punct {
		if seenVal[e.Value] {
			r.Bad("R-C11-table", fmt.Sprintf("table:duplicate:%q", e.Value), w.Pos(e.Pos), "entry listed twice: the second is dead")
		}
		seenVal[e.Value] = true
	}
	// producible token types
	producible := map[string]bool{}
	for _, e := range lf.Punct {
		producible[e.Type] = true
	}
	for _, t := range lf.Keywords {
		producible[t] = true
	}
	for _, f := range pkg.Syntax {
		// uses as a value (call argument or assigned), not as a comparison operand
		ast.Inspect(f, func(n ast.Node) bool {
			mark := func(e ast.Expr) {
				if id, ok := e.(*ast.Ident); ok {
					if c, ok := info.Uses[id].(*types.Const); ok {
						if _, isTok := lf.TokenTypes[c.Name()]; isTok {
							producible[c.Name()] = true
						}
					}
				}
			}
			switch x := n.(type) {
			case *ast.CallExpr:
				if o := calleeObj(info, x); o != nil && o.Name() == "Contains" {
					return true
				}
				for _, a := range x.Args {
					mark(a)
				}
			case *ast.AssignStmt:
				for _, rhs := range x.Rhs {
					mark(rhs)
				}
			}
			return true
		})
	}
	used := map[string]token.Pos{}
	for _, f := range w.Pkgs["parser"].Syntax {
		ast.Inspect(f, func(n ast.Node) bool {
			sel, ok := n.(*ast.SelectorExpr)
			if !ok {
				return true
			}
			if c, ok := w.Pkgs["parser"].TypesInfo.Uses[sel.Sel].(*types.Const); ok && c.Pkg() == pkg.Types {
				if _, isTok := lf.TokenTypes[c.Name()]; isTok {
					if _, seen := used[c.Name()]; !seen {
						used[c.Name()] = sel.Pos()
					}
				}
			}
			return true
		})
	}
	var un []string
	for n := range used {
		un = append(un, n)
	}
	sort.Strings(un)
	for _, n := range un {
		if producible[n] {
			r.Ok("R-C11-table", "table:producible:"+n, w.Pos(used[n]), "token type tested by the parser is produced by the lexer")
		} else {
			r.Bad("R-C11-table", "table:producible:"+n, w.Pos(used[n]), "the parser tests for token type "+n+" but no table entry, keyword or token construction of the lexer produces it")
		}
	}
	// --- regexes
	first, _, _ := LexerIdentifierLanguage(w)
	var identFirst, identRest []rune
	if t, err := syntax.Parse(first[0], syntax.Perl); err == nil {
		identFirst = t.Rune
	}
	if t, err := syntax.Parse(first[1], syntax.Perl); err == nil {
		identRest = t.Rune
	}
	for _, re := range lf.Regexes {
		key := fmt.Sprintf("regex:%q", re.Pattern)
		pos := w.Pos(re.Pos)
		if re.Tree == nil {
			r.Bad("R-C11-regex", key+":parse", pos, "regex is not a constant or does not parse")
			continue
		}
		if !re.OnRest {
			continue
		}
		if !anchoredAtStart(re.Tree) {
			r.Bad("R-C11-regex", key+":anchor", pos, "probe applied to the rest of the input is not ^-anchored: it can match (and skip to) a later position")
			continue
		}
		fr, _, ok := firstRunes(re.Tree)
		startsIdent := false
		if ok {
			for i := 0; i+1 < len(identFirst); i += 2 {
				for c := identFirst[i]; c <= identFirst[i+1]; c++ {
					if rangesContain(fr, c) {
						startsIdent = true
					}
				}
			}
		}
		if startsIdent && onlyRunesIn(re.Tree, identRest) {
			if endsWithWordBoundary(re.Tree) {
				r.Ok("R-C11-regex", key+":boundary", pos, "identifier-like probe ends in a word boundary")
			} else if endsWithGreedyClass(re.Tree, identRest) {
				r.Ok("R-C11-regex", key+":boundary", pos, "identifier-like probe ends in a greedy repetition of the whole identifier class: its match is maximal, no identifier character can follow it")
			} else {
				r.Bad("R-C11-regex", key+":boundary", pos, "probe matches identifier-like words and runs before the identifier arm but has no trailing word boundary: an identifier starting with such a word (trueish) is split")
			}
			continue
		}
		if g, term := greedyDotBeforeTerminator(re.Tree); g {
			r.Bad("R-C11-regex", key+":greedy", pos, fmt.Sprintf("comment probe is greedy up to its terminator %q: it extends to the LAST terminator in the file and swallows the code in between", term))
			continue
		}
		r.Ok("R-C11-regex", key, pos, "anchored probe")
	}
	// --- bytes: uint8 -> string conversions
	nconv := 0
	for _, fn := range w.Funcs("lexer") {
		for _, b := range fn.Blocks {
			for _, ins := range b.Instrs {
				cv, ok := ins.(*ssa.Convert)
				if !ok || !isString(cv.Type()) {
					continue
				}
				if bt, ok := cv.X.Type().Underlying().(*types.Basic); ok && (bt.Kind() == types.Uint8 || bt.Kind() == types.Int32 || bt.Kind() == types.Int) {
					nconv++
					r.Bad("R-C11-bytes", "bytes:"+FuncName(fn), w.Pos(cv.Pos()), "a single byte of the source is converted to a string as a code point: bytes ≥ 0x80 (UTF-8 text) are re-encoded as two bytes, so non-ASCII literals are corrupted")
				}
			}
		}
	}
	if nconv == 0 {
		r.Ok("R-C11-bytes", "bytes:lexer", w.Pos(lf.Tokenize.Pos()), "no byte→string conversion: source bytes are copied as substrings")
	}
	// --- positions and errors over the probe arms
	loop := mainLoop(lf.Tokenize)
	if loop == nil {
		r.Bad("R-C11-pos", "pos:loop", w.Pos(lf.Tokenize.Pos()), "scanning loop not found")
		return r
	}
	// row variable: the variable incremented under a test against NEWLINE
	var rowObj types.Object
	ast.Inspect(loop, func(n ast.Node) bool {
		ifs, ok := n.(*ast.IfStmt)
		if !ok {
			return true
		}
		mentionsNL := containsNode(ifs.Cond, func(n ast.Node) bool {
			id, ok := n.(*ast.Ident)
			return ok && id.Name == "NEWLINE" && info.Uses[id] != nil
		})
		if !mentionsNL {
			return true
		}
		for _, st := range ifs.Body.List {
			if inc, ok := st.(*ast.IncDecStmt); ok && inc.Tok == token.INC {
				if id, ok := inc.X.(*ast.Ident); ok {
					rowObj = info.Uses[id]
				}
			}
		}
		return true
	})
	uniform := false
	if rowObj == nil {
		// the other mechanism: one position function applied to the consumed text of every token
		if uniform = uniformPosition(w, lf, r); !uniform {
			r.Bad("R-C11-pos", "pos:row-variable", w.Pos(loop.Pos()), "cannot identify the row counter (no increment under a NEWLINE test, no position function applied to the consumed text)")
		}
	}
	arms := probeArms(loop)
	if uniform {
		arms = nil // the arms do no bookkeeping of their own
	}
	r.Analysed["probe_arms"] = len(arms)
	charTestAt := map[token.Pos]*CharTest{}
	for _, t := range LexCharTests(w) {
		charTestAt[t.At] = t
	}
	for i, arm := range arms {
		// which regexes belong to the arm's condition/init
		canNL := false
		what := ""
		for _, re := range lf.Regexes {
			inCond := (arm.Init != nil && within(arm.Init, re.Pos)) || within(arm.Cond, re.Pos)
			if inCond && re.OnRest && re.Tree != nil && canMatchNewline(re.Tree) {
				canNL = true
				what = fmt.Sprintf("probe %q can match a newline", re.Pattern)
			}
		}
		// an inner loop that copies source bytes (string scanning)
		if containsNode(arm.Body, func(n ast.Node) bool {
			_, ok := n.(*ast.ForStmt)
			return ok
		}) && containsNode(arm.Body, func(n ast.Node) bool {
			as, ok := n.(*ast.AssignStmt)
			return ok && as.Tok == token.ADD_ASSIGN
		}) && !containsNode(arm.Cond, func(n ast.Node) bool {
			// the identifier arm's condition is a character-class test; its loop cannot take a newline
			c, ok := n.(*ast.CallExpr)
			if !ok {
				return false
			}
			for _, re := range lf.Regexes {
				if re.Call == c {
					if cc, ok := charClassOf(re.Tree); ok && !canMatchNewline(cc) {
						return true
					}
				}
			}
			// any other spelling of a character test (helper predicate, character list …)
			if t, ok := charTestAt[c.Lparen]; ok && !t.Set.Has('\n') {
				return true
			}
			return false
		}) {
			canNL = true
			what = "the arm copies arbitrary source bytes in a loop (multi-line string contents)"
		}
		if !canNL {
			continue
		}
		key := fmt.Sprintf("pos:arm#%d", i)
		assigns := rowObj != nil && containsNode(arm.Body, func(n ast.Node) bool {
			switch s := n.(type) {
			case *ast.AssignStmt:
				for _, l := range s.Lhs {
					if id, ok := l.(*ast.Ident); ok && info.Uses[id] == rowObj {
						return true
					}
				}
			case *ast.IncDecStmt:
				if id, ok := s.X.(*ast.Ident); ok && info.Uses[id] == rowObj {
					return true
				}
			}
			return false
		})
		if assigns {
			r.Ok("R-C11-pos", key, w.Pos(arm.Pos), what+" and the arm updates the row counter")
		} else {
			r.Bad("R-C11-pos", key, w.Pos(arm.Pos), what+" but the arm never updates the row counter: every later token reports a wrong row")
		}
	}
	// what the bookkeeping of such an arm is computed from: the consumed source text
	// (slices of the source, probe matches on it), never the decoded token value
	if rowObj != nil {
		posSources(w, lf, info, loop, arms, rowObj, r)
	}
	// the NEWLINE token itself
	if rowObj != nil {
		r.Ok("R-C11-pos", "pos:newline-token", w.Pos(loop.Pos()), "NEWLINE tokens advance the row counter")
	}
	// --- errors: Tokenize's error results
	tk := w.SSA["lexer"].Func("Tokenize")
	nerr := 0
	if tk != nil {
		for _, b := range tk.Blocks {
			for _, ins := range b.Instrs {
				if c, ok := ins.(*ssa.Call); ok {
					if callee := c.Call.StaticCallee(); callee != nil && callee.String() == "fmt.Errorf" {
						nerr++
						if k, ok := c.Call.Args[0].(*ssa.Const); ok {
							r.Ok("R-C11-errors", fmt.Sprintf("errors:lexer:%q", strings.SplitN(constStringVal(k), "%", 2)[0]), w.Pos(c.Pos()), "error constructed with a non-empty message")
						}
					}
				}
			}
		}
	}
	if nerr < 2 {
		r.Bad("R-C11-errors", "errors:lexer:count", w.Pos(lf.Tokenize.Pos()), fmt.Sprintf("expected error exits for unterminated strings and unknown characters, found %d error constructions", nerr))
	}
	// --- escapes: the escape probe consumes exactly one character after the backslash
	for _, re := range lf.Regexes {
		if re.Tree == nil || !re.OnRest {
			continue
		}
		fr, _, ok := firstRunes(re.Tree)
		if !ok || len(fr) != 2 || fr[0] != '\\' || fr[1] != '\\' {
			continue
		}
		if m := maxMatchLen(re.Tree); m >= 0 && m <= 2 {
			r.Bad("R-C11-escapes", "escapes:pairwise", w.Pos(re.Pos), "the escape probe "+fmt.Sprintf("%q", re.Pattern)+" never takes more than one character after the backslash: multi-character escapes (\\x41, \\u00e9, \\101) reach the unquoter truncated and are rejected although Go accepts them")
		} else {
			r.Ok("R-C11-escapes", "escapes:full-length", w.Pos(re.Pos), "escape probe can take multi-character escapes")
		}
	}
	return r
}

// maxMatchLen: longest match in runes (-1 = unbounded).
func maxMatchLen(t *syntax.Regexp) int {
	switch t.Op {
	case syntax.OpLiteral:
		return len(t.Rune)
	case syntax.OpCharClass, syntax.OpAnyChar, syntax.OpAnyCharNotNL:
		return 1
	case syntax.OpBeginText, syntax.OpBeginLine, syntax.OpEndText, syntax.OpEndLine, syntax.OpEmptyMatch, syntax.OpWordBoundary, syntax.OpNoWordBoundary:
		return 0
	case syntax.OpCapture:
		return maxMatchLen(t.Sub[0])
	case syntax.OpStar, syntax.OpPlus:
		return -1
	case syntax.OpQuest:
		return maxMatchLen(t.Sub[0])
	case syntax.OpRepeat:
		m := maxMatchLen(t.Sub[0])
		if m < 0 || t.Max < 0 {
			return -1
		}
		return m * t.Max
	case syntax.OpConcat:
		n := 0
		for _, s := range t.Sub {
			m := maxMatchLen(s)
			if m < 0 {
				return -1
			}
			n += m
		}
		return n
	case syntax.OpAlternate:
		n := 0
		for _, s := range t.Sub {
			m := maxMatchLen(s)
			if m < 0 {
				return -1
			}
			if m > n {
				n = m
			}
		}
		return n
	}
	return -1
}

func constStringVal(c *ssa.Const) string {
	if c.Value == nil {
		return ""
	}
	s := c.Value.ExactString()
	if len(s) >= 2 && s[0] == '"' {
		return s[1 : len(s)-1]
	}
	return s
}

func runC12(w *World) *Result {
	r := NewResult("C12")
	r.Explanation = "Decides structural conditions of layout independence: (drop) blank and comment tokens are never appended to the token list and CR LF is normalised before scanning; (pos) token rows/columns flow only into error constructors, never into the tree or emitted text; (nl) every place where the parser demands a NEWLINE token continues with a token decision that tolerates further NEWLINE tokens (blank or comment-only lines); (sign) a lexeme probe whose first characters overlap the punctuation table is conditioned on the previous token, otherwise token boundaries depend on blanks."
	r.NotDecided = "equality of acceptance and emitted bytes over all re-layouts (behaviour); multi-line block comments standing in for a newline."
	r.Rule("R-C12-drop", "SPACE/COMMENT never appended; CRLF normalised before the loop", 2)
	r.Rule("R-C12-pos", "Token.Row/Column results reach only error constructors", 2)
	r.Rule("R-C12-nl", "after each required NEWLINE the next token decision accepts NEWLINE", 3)
	r.Rule("R-C12-eof", "the one-character accessor of the lexer returns the character at every position below the length: the last character of a file that does not end in a newline is seen", 1)
	CharAccessRule(w, r, "R-C12-eof")
	r.Rule("R-C12-sign", "probes overlapping punctuation are conditioned on the previous token, and the conditioning set holds every token type that can end an integer operand", 2)
	lf, err := BuildLexFacts(w)
	if err != nil {
		r.Bad("R-C12-drop", "lexer:facts", "-", err.Error())
		return r
	}
	pkg := w.Pkgs["lexer"]
	info := pkg.TypesInfo
	loop := mainLoop(lf.Tokenize)
	// --- drop: appends to the token list inside the loop
	if loop != nil {
		nAppend := 0
		var visit func(n ast.Node, guards []ast.Expr, negated []bool)
		visit = func(n ast.Node, guards []ast.Expr, negated []bool) {
			switch s := n.(type) {
			case *ast.BlockStmt:
				for _, st := range s.List {
					visit(st, guards, negated)
				}
			case *ast.IfStmt:
				visit(s.Body, append(append([]ast.Expr{}, guards...), s.Cond), append(append([]bool{}, negated...), false))
				if s.Else != nil {
					visit(s.Else, append(append([]ast.Expr{}, guards...), s.Cond), append(append([]bool{}, negated...), true))
				}
			case *ast.ForStmt:
				visit(s.Body, guards, negated)
			case *ast.RangeStmt:
				visit(s.Body, guards, negated)
			case *ast.SwitchStmt:
				// switch on the token type: a clause is entered under "one of its values", the default
				// clause under "none of the values of the other clauses"
				var all []ast.Expr
				for _, cl := range s.Body.List {
					if cc, ok := cl.(*ast.CaseClause); ok {
						all = append(all, cc.List...)
					}
				}
				for _, cl := range s.Body.List {
					cc, ok := cl.(*ast.CaseClause)
					if !ok {
						continue
					}
					g := &ast.CallExpr{Fun: ast.NewIdent("oneOf"), Args: cc.List}
					neg := false
					if cc.List == nil && s.Tag != nil {
						g = &ast.CallExpr{Fun: ast.NewIdent("oneOf"), Args: all}
						neg = true
					}
					for _, st := range cc.Body {
						visit(st, append(append([]ast.Expr{}, guards...), g), append(append([]bool{}, negated...), neg))
					}
				}
			case *ast.AssignStmt:
				for _, rhs := range s.Rhs {
					call, ok := rhs.(*ast.CallExpr)
					if !ok {
						continue
					}
					if id, ok := call.Fun.(*ast.Ident); !ok || id.Name != "append" || len(call.Args) < 2 {
						continue
					}
					// appending a Token value to a []Token
					if tv, ok := info.Types[call.Args[0]]; !ok || !strings.HasSuffix(tv.Type.String(), "[]"+pkg.Types.Path()+".Token") {
						continue
					}
					nAppend++
					guarded := false
					for i, g := range guards {
						hasSpace := containsNode(g, func(n ast.Node) bool { id, ok := n.(*ast.Ident); return ok && id.Name == "SPACE" })
						hasComment := containsNode(g, func(n ast.Node) bool { id, ok := n.(*ast.Ident); return ok && id.Name == "COMMENT" })
						if hasSpace && hasComment && negated[i] {
							guarded = true
						}
					}
					key := fmt.Sprintf("drop:append#%d", nAppend)
					if guarded {
						r.Ok("R-C12-drop", key, w.Pos(s.Pos()), "token appended only on the else side of the SPACE/COMMENT test")
					} else {
						r.Bad("R-C12-drop", key, w.Pos(s.Pos()), "a token is appended to the list without excluding both SPACE and COMMENT: layout would reach the parser")
					}
				}
			}
		}
		visit(loop.Body, nil, nil)
		if nAppend == 0 {
			r.Bad("R-C12-drop", "drop:append", w.Pos(loop.Pos()), "no append to the token list found in the scanning loop")
		}
	}
	// CRLF normalisation before the loop
	crlf := false
	for _, st := range lf.Tokenize.Body.List {
		if loop != nil && st.Pos() >= loop.Pos() {
			break
		}
		if containsNode(st, func(n ast.Node) bool {
			call, ok := n.(*ast.CallExpr)
			if !ok || len(call.Args) != 3 {
				return false
			}
			o := calleeObj(info, call)
			if o == nil || o.Pkg() == nil || o.Pkg().Path() != "strings" || o.Name() != "ReplaceAll" {
				return false
			}
			a, ok1 := constString(info, call.Args[1])
			b, ok2 := constString(info, call.Args[2])
			return ok1 && ok2 && a == "\r\n" && b == "\n"
		}) {
			crlf = true
		}
	}
	if crlf {
		r.Ok("R-C12-drop", "drop:crlf", w.Pos(lf.Tokenize.Pos()), "CR LF is replaced by LF before the scanning loop")
	} else {
		r.Bad("R-C12-drop", "drop:crlf", w.Pos(lf.Tokenize.Pos()), "CR LF is not normalised to LF before the scanning loop: CRLF files tokenise differently")
	}
	c12Pos(w, r)
	c12Newlines(w, r)
	c12CloseAfterNewline(w, r)
	c12EOFNotEaten(w, r)
	c12ArmNeedsNewline(w, r)
	c12NilStatement(w, r)
	BlockEndCallbackRule(w, r, "R-C12-nl")
	c12EOF(w, r)
	SignRule(w, r, "R-C12-sign")
	return r
}

// c12Pos: Row()/Column() results flow only into error constructors.
func c12Pos(w *World, r *Result) {
	rule := "R-C12-pos"
	n := 0
	for _, role := range []string{"parser", "transpiler", "bash", "batch", "main"} {
		for _, fn := range w.Funcs(role) {
			for _, b := range fn.Blocks {
				for _, ins := range b.Instrs {
					c, ok := ins.(*ssa.Call)
					if !ok {
						continue
					}
					callee := c.Call.StaticCallee()
					if callee == nil || pkgOf(callee) != w.Pkgs["lexer"].Types || (callee.Name() != "Row" && callee.Name() != "Column") {
						continue
					}
					n++
					key := fmt.Sprintf("pos:%s:%s#%d", FuncName(fn), callee.Name(), n)
					if flowsOnlyToErrors(c, map[ssa.Value]bool{}) {
						r.Ok(rule, fmt.Sprintf("pos:%s:%s", FuncName(fn), callee.Name()), w.Pos(c.Pos()), "position value is only formatted into an error")
					} else {
						r.Bad(rule, key, w.Pos(c.Pos()), "a token position flows somewhere other than an error constructor: layout could influence the tree or the emitted text")
					}
				}
			}
		}
	}
	if n == 0 {
		r.Bad(rule, "pos:none", "-", "no use of Token.Row/Column found (error positions are part of the mechanism)")
	}
}

func flowsOnlyToErrors(v ssa.Value, seen map[ssa.Value]bool) bool {
	if seen[v] {
		return true
	}
	seen[v] = true
	refs := v.Referrers()
	if refs == nil {
		return true
	}
	for _, ref := range *refs {
		switch x := ref.(type) {
		case *ssa.MakeInterface:
			if !flowsOnlyToErrors(x, seen) {
				return false
			}
		case *ssa.Store:
			// store into a varargs array element
			ia, ok := x.Addr.(*ssa.IndexAddr)
			if !ok {
				return false
			}
			al, ok := ia.X.(*ssa.Alloc)
			if !ok {
				return false
			}
			for _, r2 := range *al.Referrers() {
				if sl, ok := r2.(*ssa.Slice); ok {
					if !flowsOnlyToErrors(sl, seen) {
						return false
					}
				}
			}
		case *ssa.Slice:
			if !flowsOnlyToErrors(x, seen) {
				return false
			}
		case *ssa.Panic:
		case *ssa.Phi:
			if !flowsOnlyToErrors(x, seen) {
				return false
			}
		case *ssa.BinOp:
			// text put together piece by piece ("row " + n + …)
			if x.Op != token.ADD || !isString(x.Type()) {
				return false
			}
			if !flowsOnlyToErrors(x, seen) {
				return false
			}
		case *ssa.Convert:
			if !flowsOnlyToErrors(x, seen) {
				return false
			}
		case *ssa.Call:
			if bi, ok := x.Call.Value.(*ssa.Builtin); ok && bi.Name() == "append" {
				if !flowsOnlyToErrors(x, seen) {
					return false
				}
				continue
			}
			callee := x.Call.StaticCallee()
			if callee == nil {
				return false
			}
			switch callee.String() {
			case "fmt.Errorf", "errors.New":
			case "fmt.Sprintf", "strings.Join", "strconv.Itoa", "strconv.FormatInt", "fmt.Sprint":
				if !flowsOnlyToErrors(x, seen) {
					return false
				}
			default:
				// product helper that builds an error from a formatted string
				if isErrorType(callee.Signature.Results().At(callee.Signature.Results().Len() - 1).Type()) {
					continue
				}
				return false
			}
		case *ssa.DebugRef:
		default:
			return false
		}
	}
	return true
}

// ---- required NEWLINE sites ---------------------------------------------------------

// tokenTypeConst: the lexer TokenType constant value of v, if v is such a constant.
func (w *World) tokenTypeConst(v ssa.Value, lf *LexFacts) (string, bool) {
	c, ok := v.(*ssa.Const)
	if !ok || c.Value == nil {
		return "", false
	}
	n, ok := c.Type().(*types.Named)
	if !ok || n.Obj().Name() != "TokenType" {
		return "", false
	}
	val := c.Int64()
	for name, x := range lf.TokenTypes {
		if x == val {
			return name, true
		}
	}
	return "", false
}

// typeCallToken: if v is a call of (lexer.Token).Type, return the token value.
func typeCallToken(w *World, v ssa.Value) (ssa.Value, bool) {
	c, ok := v.(*ssa.Call)
	if !ok {
		return nil, false
	}
	callee := c.Call.StaticCallee()
	if callee == nil || callee.Name() != "Type" || pkgOf(callee) != w.Pkgs["lexer"].Types || len(c.Call.Args) != 1 {
		return nil, false
	}
	return c.Call.Args[0], true
}

// constantsTestedOn: the token-type constants a token value is compared with.
func constantsTestedOn(w *World, lf *LexFacts, tok ssa.Value) map[string]bool {
	out := map[string]bool{}
	refs := tok.Referrers()
	if refs == nil {
		return out
	}
	var onType func(tv ssa.Value, depth int)
	onType = func(tv ssa.Value, depth int) {
		if tv.Referrers() == nil || depth > 3 {
			return
		}
		for _, r := range *tv.Referrers() {
			switch x := r.(type) {
			case *ssa.BinOp:
				other := x.X
				if other == tv {
					other = x.Y
				}
				if n, ok := w.tokenTypeConst(other, lf); ok {
					out[n] = true
				}
			case *ssa.Store:
				// varargs / literal list passed to slices.Contains
			case *ssa.Call:
				// slices.Contains(list, tv)
				if len(x.Call.Args) == 2 && x.Call.Args[1] == tv {
					for _, n := range w.listConstants(x.Call.Args[0], lf) {
						out[n] = true
					}
				}
			case *ssa.Phi:
				onType(x, depth+1)
			}
		}
	}
	for _, r := range *refs {
		if c, ok := r.(*ssa.Call); ok {
			if t, ok := typeCallToken(w, c); ok && t == tok {
				onType(c, 0)
			}
		}
		if ph, ok := r.(*ssa.Phi); ok {
			for k := range constantsTestedOn(w, lf, ph) {
				out[k] = true
			}
		}
	}
	return out
}

// listConstants: token-type constants stored in a literal slice.
func (w *World) listConstants(v ssa.Value, lf *LexFacts) []string {
	var out []string
	sl, ok := v.(*ssa.Slice)
	if !ok {
		return nil
	}
	al, ok := sl.X.(*ssa.Alloc)
	if !ok {
		return nil
	}
	for _, r := range *al.Referrers() {
		if ia, ok := r.(*ssa.IndexAddr); ok {
			for _, rr := range *ia.Referrers() {
				if st, ok := rr.(*ssa.Store); ok {
					if n, ok := w.tokenTypeConst(st.Val, lf); ok {
						out = append(out, n)
					}
				}
			}
		}
	}
	return out
}

// nextTokenDecision walks forward from (blk, idx) to the first token whose type
// is tested and returns the constants it is tested against.
func nextTokenDecision(w *World, lf *LexFacts, fn *ssa.Function, blk *ssa.BasicBlock, idx int, depth int, visited map[*ssa.BasicBlock]bool) (map[string]bool, string, bool) {
	if depth > 3 {
		return nil, "", false
	}
	type item struct {
		b *ssa.BasicBlock
		i int
	}
	queue := []item{{blk, idx}}
	for len(queue) > 0 {
		it := queue[0]
		queue = queue[1:]
		b := it.b
		for i := it.i; i < len(b.Instrs); i++ {
			c, ok := b.Instrs[i].(*ssa.Call)
			if !ok {
				continue
			}
			callee := c.Call.StaticCallee()
			if callee == nil {
				continue
			}
			// a token obtained from the parser's look-ahead: result type lexer.Token
			if n, ok := c.Type().(*types.Named); ok && n.Obj().Name() == "Token" && n.Obj().Pkg() == w.Pkgs["lexer"].Types {
				consts := constantsTestedOn(w, lf, c)
				if len(consts) > 0 {
					return consts, FuncName(fn), true
				}
				continue
			}
			if pkgOf(callee) == w.Pkgs["parser"].Types && callee.Blocks != nil && callee != fn {
				if cs, where, ok := nextTokenDecision(w, lf, callee, callee.Blocks[0], 0, depth+1, map[*ssa.BasicBlock]bool{}); ok {
					return cs, where, true
				}
			}
		}
		for _, s := range b.Succs {
			if !visited[s] {
				visited[s] = true
				queue = append(queue, item{s, 0})
			}
		}
	}
	return nil, "", false
}

func c12Newlines(w *World, r *Result) {
	rule := "R-C12-nl"
	lf, err := BuildLexFacts(w)
	if err != nil {
		return
	}
	nsites := 0
	perFn := map[*ssa.Function]int{}
	for _, fn := range w.Funcs("parser") {
		for _, b := range fn.Blocks {
			if len(b.Instrs) == 0 {
				continue
			}
			ifi, ok := b.Instrs[len(b.Instrs)-1].(*ssa.If)
			if !ok {
				continue
			}
			// required NEWLINE: `tok.Type() != NEWLINE` (or !Contains({NEWLINE,…}, t)) with an error exit on the failing side
			var tokVal ssa.Value
			var okSucc *ssa.BasicBlock
			switch c := ifi.Cond.(type) {
			case *ssa.BinOp:
				var tv ssa.Value
				if n, ok := w.tokenTypeConst(c.Y, lf); ok && n == "NEWLINE" {
					tv = c.X
				}
				if tv == nil {
					continue
				}
				t, ok := typeCallToken(w, tv)
				if !ok {
					continue
				}
				tokVal = t
				if c.Op == token.NEQ {
					okSucc = b.Succs[1]
				} else if c.Op == token.EQL {
					okSucc = b.Succs[0]
				}
				// only sites whose failing side is an error exit are *required* newlines
				fail := b.Succs[0]
				if okSucc == b.Succs[0] {
					fail = b.Succs[1]
				}
				if !leadsToErrorReturn(fail, 0) {
					continue
				}
			case *ssa.UnOp:
				// !slices.Contains([]T{NEWLINE, EOF}, t)
				call, ok := c.X.(*ssa.Call)
				if !ok || c.Op != token.NOT || len(call.Call.Args) != 2 {
					continue
				}
				has := false
				for _, n := range w.listConstants(call.Call.Args[0], lf) {
					if n == "NEWLINE" {
						has = true
					}
				}
				if !has {
					continue
				}
				t, ok := typeCallToken(w, call.Call.Args[1])
				if !ok {
					continue
				}
				tokVal = t
				okSucc = b.Succs[1]
				if !leadsToErrorReturn(b.Succs[0], 0) {
					continue
				}
			case *ssa.Call:
				// slices.Contains([]T{NEWLINE, EOF}, t) used directly as the condition
				if len(c.Call.Args) != 2 {
					continue
				}
				has := false
				for _, n := range w.listConstants(c.Call.Args[0], lf) {
					if n == "NEWLINE" {
						has = true
					}
				}
				if !has {
					continue
				}
				t, ok := typeCallToken(w, c.Call.Args[1])
				if !ok {
					continue
				}
				tokVal = t
				okSucc = b.Succs[0]
				if !leadsToErrorReturn(b.Succs[1], 0) {
					continue
				}
			default:
				continue
			}
			if okSucc == nil || tokVal == nil {
				continue
			}
			// the token must have been consumed (eat), not merely peeked: a consuming
			// accessor is a method with pointer receiver that advances the index
			nsites++
			perFn[fn]++
			key := fmt.Sprintf("nl:%s#%d", FuncName(fn), perFn[fn])
			sitePos := w.Pos(ifi.Cond.Pos())
			if !ifi.Cond.Pos().IsValid() {
				sitePos = w.Pos(tokVal.Pos())
			}
			consts, where, found := nextTokenDecision(w, lf, fn, okSucc, 0, 0, map[*ssa.BasicBlock]bool{okSucc: true})
			if !found {
				// the function returns: continue in the callers
				tolerantAll, any := true, false
				var wheres []string
				// the decision after the call, in every caller; a caller that returns right after the
				// call (a wrapper) hands the question to its own callers
				var inCallers func(callee *ssa.Function, depth int)
				inCallers = func(callee *ssa.Function, depth int) {
					for _, caller := range w.Funcs("parser") {
						for _, cb := range caller.Blocks {
							for ci, ins := range cb.Instrs {
								cc, ok := ins.(*ssa.Call)
								if !ok || cc.Call.StaticCallee() != callee {
									continue
								}
								any = true
								cs, wh, ok := nextTokenDecision(w, lf, caller, cb, ci+1, 1, map[*ssa.BasicBlock]bool{cb: true})
								if !ok && wh == "" && depth < 3 && caller != callee {
									inCallers(caller, depth+1)
									continue
								}
								wheres = append(wheres, wh)
								if !ok || !cs["NEWLINE"] {
									tolerantAll = false
									consts = cs
								}
							}
						}
					}
				}
				inCallers(fn, 0)
				if any && tolerantAll {
					r.Ok(rule, key, sitePos, "required newline; every caller continues with a token decision that accepts further NEWLINE tokens ("+strings.Join(uniq(wheres), ",")+")")
				} else {
					r.Bad(rule, key, sitePos, fmt.Sprintf("after the required newline the next token decision (in %s) tests only %v: a blank or comment-only line here is rejected", strings.Join(uniq(wheres), ","), keys(consts)))
				}
				continue
			}
			if consts["NEWLINE"] {
				r.Ok(rule, key, sitePos, "required newline; next token decision in "+where+" accepts NEWLINE")
			} else {
				r.Bad(rule, key, sitePos, fmt.Sprintf("after the required newline the next token decision (in %s) tests only %v: a blank or comment-only line here is rejected", where, keys(consts)))
			}
		}
	}
	_ = nsites
}

func keys(m map[string]bool) []string {
	var out []string
	for k := range m {
		out = append(out, k)
	}
	sort.Strings(out)
	return out
}

func countSitesIn(fn *ssa.Function, upto *ssa.BasicBlock) int {
	return upto.Index
}

// leadsToErrorReturn: every path from b (bounded) ends in a return with a non-nil error.
func leadsToErrorReturn(b *ssa.BasicBlock, depth int) bool {
	if depth > 3 || len(b.Instrs) == 0 {
		return false
	}
	switch l := b.Instrs[len(b.Instrs)-1].(type) {
	case *ssa.Return:
		if len(l.Results) == 0 {
			return false
		}
		last := l.Results[len(l.Results)-1]
		if !isErrorType(last.Type()) {
			return false
		}
		if c, ok := last.(*ssa.Const); ok && c.IsNil() {
			return false
		}
		return true
	case *ssa.Jump:
		return leadsToErrorReturn(b.Succs[0], depth+1)
	}
	return false
}

// posSources: in every arm that assigns the row counter, the values assigned to the
// position variables (row counter and the other integer variables declared outside the
// arm) derive from the source text the arm consumed: the source parameter, slices of it,
// results of probes applied to it, strings.Split/Count/Index/LastIndex and len of those.
// A value accumulated with += (the decoded string value) or produced by a decoder
// (strconv.Unquote) differs from the source text whenever an escape is present:
// "a\nb" contains a newline only after decoding.
func posSources(w *World, lf *LexFacts, info *types.Info, loop *ast.ForStmt, arms []lexArm, rowObj types.Object, r *Result) {
	sc := newSrcChecker(w, info, lf.Tokenize, loop.Body, 0)
	defs := sc.defs
	objOf := sc.objOf
	check := func(e ast.Expr, seen map[types.Object]bool, depth int) string { return sc.check(e, seen, depth, -1) }
	for i, arm := range arms {
		n := 0
		assignsRow := false
		var bad []string
		ast.Inspect(arm.Body, func(nd ast.Node) bool {
			as, ok := nd.(*ast.AssignStmt)
			if !ok {
				return true
			}
			for k, l := range as.Lhs {
				o := objOf(l)
				if o == nil || within(arm.Body, o.Pos()) {
					continue
				}
				b, ok := o.Type().Underlying().(*types.Basic)
				if !ok || b.Info()&types.IsInteger == 0 {
					continue
				}
				if o == rowObj {
					assignsRow = true
				}
				if k >= len(as.Rhs) {
					continue
				}
				n++
				if m := check(as.Rhs[k], map[types.Object]bool{}, 0); m != "" {
					bad = append(bad, fmt.Sprintf("%s %s … is computed from %s", o.Name(), as.Tok, m))
				}
			}
			return true
		})
		if !assignsRow {
			continue
		}
		// a position variable set back to a constant (column 1) only under a test on the
		// number of line breaks consumed: a lexeme that stays on its line keeps its column
		var resets []string
		var stack []ast.Node
		ast.Inspect(arm.Body, func(nd ast.Node) bool {
			if nd == nil {
				stack = stack[:len(stack)-1]
				return true
			}
			stack = append(stack, nd)
			as, ok := nd.(*ast.AssignStmt)
			if !ok || as.Tok != token.ASSIGN {
				return true
			}
			for k, l := range as.Lhs {
				o := objOf(l)
				if o == nil || o == rowObj || within(arm.Body, o.Pos()) || k >= len(as.Rhs) {
					continue
				}
				b, ok := o.Type().Underlying().(*types.Basic)
				if !ok || b.Info()&types.IsInteger == 0 {
					continue
				}
				// constant right-hand side (directly or a variable that only ever holds a constant)
				isConst := false
				if tv, ok := info.Types[as.Rhs[k]]; ok && tv.Value != nil {
					isConst = true
				} else if ro := objOf(as.Rhs[k]); ro != nil {
					all := len(defs[ro]) > 0
					for _, d := range defs[ro] {
						if tv, ok := info.Types[d.rhs]; !ok || tv.Value == nil {
							all = false
						}
					}
					isConst = all
				}
				if !isConst {
					continue
				}
				guarded := false
				for _, anc := range stack {
					ifs, ok := anc.(*ast.IfStmt)
					if !ok {
						continue
					}
					for _, root := range []ast.Node{ifs.Init, ifs.Cond} {
						if root == nil || (root == ifs.Init && ifs.Init == nil) {
							continue
						}
						if containsNode(root, func(n ast.Node) bool {
							switch x := n.(type) {
							case *ast.CallExpr:
								if co := calleeObj(info, x); co != nil && co.Pkg() != nil && co.Pkg().Name() == "strings" && (co.Name() == "Split" || co.Name() == "Count" || co.Name() == "Contains" || co.Name() == "Index" || co.Name() == "LastIndex") {
									return true
								}
							case *ast.Ident:
								if io := objOf(x); io != nil {
									for _, d := range defs[io] {
										if d.rhs != nil && containsNode(d.rhs, func(n2 ast.Node) bool {
											c2, ok := n2.(*ast.CallExpr)
											if !ok {
												return false
											}
											co := calleeObj(info, c2)
											return co != nil && co.Pkg() != nil && co.Pkg().Name() == "strings" && (co.Name() == "Split" || co.Name() == "Count")
										}) {
											return true
										}
										// one more step: len(lines)-1 where lines comes from Split
										if d.rhs != nil && containsNode(d.rhs, func(n2 ast.Node) bool {
											id2, ok := n2.(*ast.Ident)
											if !ok {
												return false
											}
											for _, d2 := range defs[objOf(id2)] {
												if d2.rhs != nil && containsNode(d2.rhs, func(n3 ast.Node) bool {
													c3, ok := n3.(*ast.CallExpr)
													if !ok {
														return false
													}
													co := calleeObj(info, c3)
													return co != nil && co.Pkg() != nil && co.Pkg().Name() == "strings" && (co.Name() == "Split" || co.Name() == "Count")
												}) {
													return true
												}
											}
											return false
										}) {
											return true
										}
									}
								}
							}
							return false
						}) {
							guarded = true
						}
					}
				}
				if !guarded {
					resets = append(resets, o.Name())
				}
			}
			return true
		})
		// the text whose line breaks are counted is the text the position was advanced by: the pieces
		// of a part of the lexeme (the comment without its delimiters) end before the lexeme does, and
		// the column base computed from the last piece is off by the length of what was left out
		{
			var canon func(e ast.Expr, d int) string
			canon = func(e ast.Expr, d int) string {
				if id, ok := e.(*ast.Ident); ok && d < 4 {
					if o := objOf(id); o != nil && len(defs[o]) == 1 && defs[o][0].rhs != nil && within(arm.Body, o.Pos()) {
						return canon(defs[o][0].rhs, d+1)
					}
				}
				if p, ok := e.(*ast.ParenExpr); ok {
					return canon(p.X, d)
				}
				return types.ExprString(e)
			}
			var advancedBy []string
			var advVar types.Object
			var counted []ast.Expr
			ast.Inspect(arm.Body, func(nd ast.Node) bool {
				switch x := nd.(type) {
				case *ast.AssignStmt:
					if x.Tok == token.ADD_ASSIGN && len(x.Lhs) == 1 && len(x.Rhs) == 1 {
						if o := objOf(x.Lhs[0]); o != nil && !within(arm.Body, o.Pos()) {
							if c, ok := x.Rhs[0].(*ast.CallExpr); ok {
								if id, ok := c.Fun.(*ast.Ident); ok && id.Name == "len" && len(c.Args) == 1 {
									if tv, ok := info.Types[c.Args[0]]; ok && isString(tv.Type) {
										advancedBy = append(advancedBy, canon(c.Args[0], 0))
										advVar = o
									}
								}
							}
						}
					}
				case *ast.CallExpr:
					if co := calleeObj(info, x); co != nil && co.Pkg() != nil && co.Pkg().Path() == "strings" && (co.Name() == "Split" || co.Name() == "LastIndex" || co.Name() == "LastIndexByte") && len(x.Args) == 2 {
						if sep, ok := constString(info, x.Args[1]); ok && sep == "\n" {
							counted = append(counted, x.Args[0])
						}
					}
				}
				return true
			})
			if len(advancedBy) == 1 && len(counted) > 0 {
				ckey := fmt.Sprintf("pos:extent:arm#%d", i)
				wrong := ""
				for _, c := range counted {
					// the source from some earlier position up to the current one ends where the lexeme ends
					rc := c
					for d := 0; d < 4; d++ {
						id, ok := rc.(*ast.Ident)
						if !ok {
							break
						}
						o := objOf(id)
						if o == nil || len(defs[o]) != 1 || defs[o][0].rhs == nil {
							break
						}
						rc = defs[o][0].rhs
					}
					if se, ok := rc.(*ast.SliceExpr); ok && se.High != nil && objOf(se.High) == advVar && advVar != nil {
						continue
					}
					if canon(c, 0) != advancedBy[0] {
						wrong = types.ExprString(c)
					}
				}
				if wrong != "" {
					r.Bad("R-C11-pos", ckey, w.Pos(arm.Pos), fmt.Sprintf("the position is advanced by len(%s) but the line breaks are looked for in %s, which is not that text: the column base taken from its last line is off by what was left out (the delimiters of the comment)", advancedBy[0], wrong))
				} else {
					r.Ok("R-C11-pos", ckey, w.Pos(arm.Pos), "line breaks are looked for in the very text the position was advanced by")
				}
			}
		}
		rkey := fmt.Sprintf("pos:reset:arm#%d", i)
		if len(resets) > 0 {
			r.Bad("R-C11-pos", rkey, w.Pos(arm.Pos), fmt.Sprintf("%v is set back to a constant whether or not the lexeme contained a line break: after a lexeme of this arm that stays on one line (x /* c */ y) the following tokens report a column counted from the start of the line's lexeme instead of their own", uniq(resets)))
		} else {
			r.Ok("R-C11-pos", rkey, w.Pos(arm.Pos), "the column base is set back to the line start only under a test on the line breaks consumed")
		}
		key := fmt.Sprintf("pos:source:arm#%d", i)
		if len(bad) == 0 {
			r.Ok("R-C11-pos", key, w.Pos(arm.Pos), fmt.Sprintf("%d position updates, all computed from the consumed source text", n))
		} else {
			r.Bad("R-C11-pos", key, w.Pos(arm.Pos), strings.Join(uniq(bad), "; ")+": rows and columns of later tokens follow the decoded value instead of the source (an escaped \\n counts as a line break, a literal one inside the token may not)")
		}
	}
}

// SignRule: probes that can start with a character that is also punctuation (the minus of a
// negative literal) are conditioned on the previous token, and the conditioning set holds
// every token type that can end an integer operand.
func SignRule(w *World, r *Result, rule string) {
	lf, err := BuildLexFacts(w)
	if err != nil {
		r.Bad(rule, "sign:facts", "-", err.Error())
		return
	}
	pkg := w.Pkgs["lexer"]
	info := pkg.TypesInfo
	loop := mainLoop(lf.Tokenize)
	// --- sign
	punctFirst := map[byte]bool{}
	for _, e := range lf.Punct {
		if len(e.Value) > 0 {
			punctFirst[e.Value[0]] = true
		}
	}
	arms := []lexArm{}
	if loop != nil {
		arms = probeArms(loop)
	}
	for _, re := range lf.Regexes {
		if re.Tree == nil || !re.OnRest {
			continue
		}
		fr, _, ok := firstRunes(re.Tree)
		if !ok {
			continue
		}
		var overlap []string
		for c := range punctFirst {
			if c == '/' || c == '"' {
				continue // comment openers are distinct lexemes by design (// and /* … */)
			}
			if rangesContain(fr, rune(c)) && len(fr) < 40 {
				overlap = append(overlap, string(c))
			}
		}
		if len(overlap) == 0 {
			continue
		}
		sort.Strings(overlap)
		key := fmt.Sprintf("sign:%q", re.Pattern)
		// the arm's condition must look at the tokens produced so far
		conditioned := false
		for _, arm := range arms {
			if (arm.Init != nil && within(arm.Init, re.Pos)) || within(arm.Cond, re.Pos) {
				conditioned = containsNode(arm.Cond, func(n ast.Node) bool {
					id, ok := n.(*ast.Ident)
					if !ok {
						return false
					}
					o := info.Uses[id]
					return o != nil && strings.HasSuffix(o.Type().String(), "[]"+pkg.Types.Path()+".Token")
				})
				if !conditioned && arm.Init != nil {
					conditioned = containsNode(arm.Init, func(n ast.Node) bool {
						id, ok := n.(*ast.Ident)
						if !ok {
							return false
						}
						o := info.Uses[id]
						return o != nil && strings.HasSuffix(o.Type().String(), "[]"+pkg.Types.Path()+".Token")
					})
				}
			}
		}
		// ... or at a variable that remembers the last token (or its type): it has to be set
		// exactly where a token is added to the list, or it also remembers the blanks and
		// comments that are dropped
		memBad := false
		if !conditioned && loop != nil {
			tokSlice := func(n ast.Node) bool {
				id, ok := n.(*ast.Ident)
				if !ok {
					return false
				}
				o := info.Uses[id]
				return o != nil && strings.HasSuffix(o.Type().String(), "[]"+pkg.Types.Path()+".Token")
			}
			for _, arm := range arms {
				if !((arm.Init != nil && within(arm.Init, re.Pos)) || within(arm.Cond, re.Pos)) {
					continue
				}
				var mem []types.Object
				for _, root := range []ast.Node{arm.Init, arm.Cond} {
					if root == nil || (root == arm.Init && arm.Init == nil) {
						continue
					}
					ast.Inspect(root, func(n ast.Node) bool {
						if id, ok := n.(*ast.Ident); ok {
							if v, ok := info.Uses[id].(*types.Var); ok && !v.IsField() {
								tn := v.Type().String()
								if tn == pkg.Types.Path()+".Token" || tn == pkg.Types.Path()+".TokenType" {
									mem = append(mem, v)
								}
							}
						}
						return true
					})
				}
				for _, v := range mem {
					nAssign, stray := 0, ""
					var visit func(list []ast.Stmt)
					check := func(list []ast.Stmt) {
						hasAppend := false
						for _, st := range list {
							if as, ok := st.(*ast.AssignStmt); ok && len(as.Rhs) == 1 {
								if call, ok := as.Rhs[0].(*ast.CallExpr); ok {
									if id, ok := call.Fun.(*ast.Ident); ok && id.Name == "append" && len(call.Args) > 0 && tokSlice(call.Args[0]) {
										hasAppend = true
									}
								}
							}
						}
						for _, st := range list {
							if as, ok := st.(*ast.AssignStmt); ok {
								for _, l := range as.Lhs {
									if id, ok := l.(*ast.Ident); ok && (info.Uses[id] == v) {
										nAssign++
										if !hasAppend {
											stray = w.Pos(as.Pos())
										}
									}
								}
							}
						}
					}
					visit = func(list []ast.Stmt) {
						check(list)
						for _, st := range list {
							ast.Inspect(st, func(n ast.Node) bool {
								switch b := n.(type) {
								case *ast.BlockStmt:
									if n != st {
										visit(b.List)
										return false
									}
								case *ast.CaseClause:
									visit(b.Body)
									return false
								}
								return true
							})
						}
					}
					visit(loop.Body.List)
					if nAssign > 0 && stray == "" {
						conditioned = true
					} else if stray != "" {
						memBad = true
						r.Bad(rule, key+":memory", w.Pos(re.Pos), fmt.Sprintf("the previous-token test reads %s, which is also set (%s) for tokens that are not added to the token list: after a blank or a comment the sign is glued to the literal (a -1 lexes as a, -1 while a-1 lexes as a, -, 1)", v.Name(), stray))
					}
				}
			}
		}
		if conditioned {
			// which previous tokens make the sign an operator: every token type that can end an
			// integer operand must be among them (table with the reason for each entry)
			needed := [][2]string{
				{"IDENTIFIER", "a-1: a variable ends the left operand"},
				{"NUMBER_LITERAL", "2-1: a literal ends the left operand"},
				{"CLOSING_ROUND_BRACKET", "(a+b)-1 and f(x)-1: a group or a call ends the left operand"},
				{"CLOSING_SQUARE_BRACKET", "s[i]-1: a subscript ends the left operand"},
			}
			found := map[string]bool{}
			collect := func(n ast.Node) {
				ast.Inspect(n, func(n ast.Node) bool {
					if id, ok := n.(*ast.Ident); ok {
						if c, ok := info.Uses[id].(*types.Const); ok {
							if _, isTok := lf.TokenTypes[c.Name()]; isTok {
								found[c.Name()] = true
							}
						}
					}
					return true
				})
			}
			for _, arm := range arms {
				if (arm.Init != nil && within(arm.Init, re.Pos)) || within(arm.Cond, re.Pos) {
					for _, root := range []ast.Node{arm.Init, arm.Cond} {
						if root == nil || (root == arm.Init && arm.Init == nil) {
							continue
						}
						collect(root)
						ast.Inspect(root, func(n ast.Node) bool {
							call, ok := n.(*ast.CallExpr)
							if !ok {
								return true
							}
							if o := calleeObj(info, call); o != nil && o.Pkg() == pkg.Types {
								for _, f := range pkg.Syntax {
									for _, d := range f.Decls {
										if fd, ok := d.(*ast.FuncDecl); ok && info.Defs[fd.Name] == o && fd.Body != nil {
											collect(fd.Body)
										}
									}
								}
							}
							return true
						})
					}
				}
			}
			var missing []string
			for _, nd := range needed {
				if _, exists := lf.TokenTypes[nd[0]]; !exists {
					missing = append(missing, nd[0]+" (no such token type in the lexer)")
				} else if !found[nd[0]] {
					missing = append(missing, nd[0]+" ("+nd[1]+")")
				}
			}
			if len(missing) > 0 {
				r.Bad(rule, key+":operand-enders", w.Pos(re.Pos), "the previous-token test that turns the sign into an operator does not list "+strings.Join(missing, ", ")+": after such a token the sign is glued to the literal and a well-typed expression is rejected depending on blanks")
			} else {
				var fs []string
				for f := range found {
					fs = append(fs, f)
				}
				sort.Strings(fs)
				r.Ok(rule, key+":operand-enders", w.Pos(re.Pos), "previous-token set "+strings.Join(fs, ",")+" contains every token type that can end an integer operand")
			}
			r.Ok(rule, key, w.Pos(re.Pos), "probe starting with "+strings.Join(overlap, ",")+" is conditioned on the previous token")
		} else if !memBad {
			r.Bad(rule, key, w.Pos(re.Pos), "probe "+fmt.Sprintf("%q", re.Pattern)+" can start with "+strings.Join(overlap, ",")+" which is also punctuation, and is tried regardless of the previous token: a-1 lexes as a, -1 (rejected) while a - 1 lexes as a, -, 1 — acceptance depends on blanks")
		}
	}
}

// CharAccessRule: the lexer's one-character accessor (a function returning s[p:p+1] of its
// string parameter) yields the character for every p < len(s) and "" otherwise. A stricter
// bound loses the last character of the input; a laxer one panics.
func CharAccessRule(w *World, r *Result, rule string) {
	n := 0
	for _, fn := range w.Funcs("lexer") {
		for _, b := range fn.Blocks {
			for _, ins := range b.Instrs {
				sl, ok := ins.(*ssa.Slice)
				if !ok || sl.Low == nil || sl.High == nil {
					continue
				}
				p, ok := sl.X.(*ssa.Parameter)
				if !ok || !isString(p.Type()) {
					continue
				}
				hi, ok := sl.High.(*ssa.BinOp)
				if !ok || hi.Op != token.ADD || hi.X != sl.Low {
					continue
				}
				if k, ok := hi.Y.(*ssa.Const); !ok || k.Value == nil || k.Int64() != 1 {
					continue
				}
				n++
				key := "char:" + FuncName(fn)
				isLen := func(v ssa.Value) bool {
					c, ok := v.(*ssa.Call)
					if !ok {
						return false
					}
					bi, ok := c.Call.Value.(*ssa.Builtin)
					return ok && bi.Name() == "len" && len(c.Call.Args) == 1 && c.Call.Args[0] == p
				}
				verdict, detail := "", ""
				for d := b; d != nil; d = d.Idom() {
					par := d.Idom()
					if par == nil {
						break
					}
					c, neg := condOf(par)
					bo, ok := c.(*ssa.BinOp)
					if !ok {
						continue
					}
					onTrue := par.Succs[0].Dominates(b) && len(par.Succs[0].Preds) == 1
					onFalse := par.Succs[1].Dominates(b) && len(par.Succs[1].Preds) == 1
					if !onTrue && !onFalse {
						continue
					}
					holds := onTrue != neg // the comparison itself holds on the path to the slice
					op, x, y := bo.Op, bo.X, bo.Y
					if !holds {
						switch op {
						case token.LSS:
							op = token.GEQ
						case token.LEQ:
							op = token.GTR
						case token.GTR:
							op = token.LEQ
						case token.GEQ:
							op = token.LSS
						default:
							continue
						}
					}
					// normalise to  a OP len(s)
					if isLen(x) {
						x, y = y, x
						switch op {
						case token.LSS:
							op = token.GTR
						case token.LEQ:
							op = token.GEQ
						case token.GTR:
							op = token.LSS
						case token.GEQ:
							op = token.LEQ
						}
					}
					if !isLen(y) {
						continue
					}
					switch {
					case op == token.LSS && x == sl.Low, op == token.LEQ && x == sl.High:
						verdict, detail = "ok", "guard is exactly position < len(s)"
					case op == token.LSS && x == sl.High:
						verdict, detail = "bad", "the guard is position+1 < len(s): the last character of the input is never returned (a file that does not end in a newline loses its final byte)"
					case op == token.LEQ && x == sl.Low:
						verdict, detail = "bad", "the guard is position <= len(s): position == len(s) slices past the end (panic)"
					}
					if verdict != "" {
						break
					}
				}
				switch verdict {
				case "ok":
					r.Ok(rule, key, w.Pos(sl.Pos()), "s[p:p+1] under "+detail)
				case "bad":
					r.Bad(rule, key, w.Pos(sl.Pos()), detail)
				default:
					r.Bad(rule, key, w.Pos(sl.Pos()), "cannot find the bound that guards s[p:p+1]")
				}
			}
		}
	}
	if n == 0 {
		r.Bad(rule, "char:none", "-", "no one-character accessor found in the lexer")
	}
}

// ClassTestRule: a regular expression applied with MatchString to one character of the
// input (the result of the character accessor, "" at the end of the input) must not accept
// the empty string: a scanning loop that continues while the test succeeds would never
// leave at the end of the input.
func ClassTestRule(w *World, r *Result, rule string) {
	tests := LexCharTests(w)
	sort.SliceStable(tests, func(i, j int) bool { return tests[i].At < tests[j].At })
	n := 0
	for _, t := range tests {
		// class tests: a set of characters decided by a regular expression, a predicate or a
		// character list (plain comparisons with one character are the arms' own business)
		if t.How == "comparison" || t.IsByte {
			continue
		}
		n++
		key := fmt.Sprintf("lexclass:#%d", n)
		if t.Set.EOF {
			r.Bad(rule, key, w.Pos(t.At), fmt.Sprintf("the character test (%s, class %s) also succeeds on the empty string, which is what the scanner sees at the end of the input: the loop it controls never ends when a file ends inside such a lexeme", t.How, t.Set.ClassString()))
		} else {
			r.Ok(rule, key, w.Pos(t.At), fmt.Sprintf("character test (%s, class %s) fails on the empty string (end of input leaves the loop)", t.How, t.Set.ClassString()))
		}
	}
	// a byte test s[i] cannot see the end of the input at all: the access must be in range,
	// which is the business of the index rule
	for _, t := range tests {
		if t.IsByte && t.How != "comparison" {
			n++
			r.Ok(rule, fmt.Sprintf("lexclass:#%d", n), w.Pos(t.At), fmt.Sprintf("character test on a byte of the source (%s, class %s); its index is judged by the index rule", t.How, t.Set.ClassString()))
		}
	}
	if n == 0 {
		// a lexer that decides by anchored probes on the rest of the input only has no class test
		// that could succeed at the end of the input; the probes are judged by the progress rule
		r.Triv(rule, "lexclass:none", "-", "no character-class test in the lexer (anchored probes only)")
	}
}

// endsWithGreedyClass: the expression ends in class* / class+ (greedy) where the class holds
// every rune of the given ranges: whatever follows the match is not in the class.
func endsWithGreedyClass(t *syntax.Regexp, ranges []rune) bool {
	t = t.Simplify()
	last := t
	for last.Op == syntax.OpConcat || last.Op == syntax.OpCapture {
		if len(last.Sub) == 0 {
			return false
		}
		last = last.Sub[len(last.Sub)-1]
	}
	if (last.Op != syntax.OpStar && last.Op != syntax.OpPlus) || last.Flags&syntax.NonGreedy != 0 || last.Sub[0].Op != syntax.OpCharClass {
		return false
	}
	cc := last.Sub[0]
	for i := 0; i+1 < len(ranges); i += 2 {
		covered := false
		for j := 0; j+1 < len(cc.Rune); j += 2 {
			if cc.Rune[j] <= ranges[i] && ranges[i+1] <= cc.Rune[j+1] {
				covered = true
			}
		}
		if !covered {
			return false
		}
	}
	return len(ranges) > 0
}

// regexNullable: can the expression match the empty string (anywhere, i.e. unanchored search)?
func regexNullable(t *syntax.Regexp) bool {
	switch t.Op {
	case syntax.OpEmptyMatch, syntax.OpBeginLine, syntax.OpEndLine, syntax.OpBeginText, syntax.OpEndText, syntax.OpWordBoundary, syntax.OpNoWordBoundary:
		return true
	case syntax.OpStar, syntax.OpQuest:
		return true
	case syntax.OpRepeat:
		return t.Min == 0 || regexNullable(t.Sub[0])
	case syntax.OpPlus, syntax.OpCapture:
		return regexNullable(t.Sub[0])
	case syntax.OpConcat:
		for _, s := range t.Sub {
			if !regexNullable(s) {
				return false
			}
		}
		return true
	case syntax.OpAlternate:
		for _, s := range t.Sub {
			if regexNullable(s) {
				return true
			}
		}
		return false
	case syntax.OpLiteral:
		return len(t.Rune) == 0
	}
	return false
}

// c12EOF: where the parser looks at the type of the next token and takes NEWLINE to mean
// "nothing more belongs to this construct", the other side of that test must not go
// straight on to parse more input: the last line of a file need not end in a newline, so
// the end-of-input token has to be tested as well before anything is parsed.
func c12EOF(w *World, r *Result) {
	rule := "R-C12-nl"
	lf, err := BuildLexFacts(w)
	if err != nil {
		return
	}
	if _, ok := lf.TokenTypes["EOF"]; !ok {
		return
	}
	consumesMemo := map[*ssa.Function]int{}
	var consumes func(fn *ssa.Function, depth int) bool
	consumes = func(fn *ssa.Function, depth int) bool {
		if fn == nil || fn.Blocks == nil || depth > 12 {
			return false
		}
		if v, ok := consumesMemo[fn]; ok {
			return v == 1
		}
		consumesMemo[fn] = 0
		res := false
		for _, b := range fn.Blocks {
			for _, ins := range b.Instrs {
				if c, ok := ins.(ssa.CallInstruction); ok {
					if callee := c.Common().StaticCallee(); callee != nil && pkgOf(callee) == w.Pkgs["parser"].Types {
						if isTokenConsumer(callee) || consumes(callee, depth+1) {
							res = true
						}
					}
				}
			}
		}
		if res {
			consumesMemo[fn] = 1
		}
		return res
	}
	mentions := func(cond ssa.Value, tv ssa.Value) bool {
		found := false
		var walk func(v ssa.Value, d int)
		walk = func(v ssa.Value, d int) {
			if v == nil || d > 4 || found {
				return
			}
			if v == tv {
				found = true
				return
			}
			if t1, ok := typeCallToken(w, v); ok {
				if t0, ok := typeCallToken(w, tv); ok && t0 == t1 {
					found = true
					return
				}
			}
			switch x := v.(type) {
			case *ssa.BinOp:
				walk(x.X, d+1)
				walk(x.Y, d+1)
			case *ssa.UnOp:
				walk(x.X, d+1)
			case *ssa.Call:
				for _, a := range x.Call.Args {
					walk(a, d+1)
				}
			}
		}
		walk(cond, 0)
		return found
	}
	perFn := map[*ssa.Function]int{}
	for _, fn := range w.Funcs("parser") {
		for _, b := range fn.Blocks {
			if len(b.Instrs) == 0 {
				continue
			}
			ifi, ok := b.Instrs[len(b.Instrs)-1].(*ssa.If)
			if !ok {
				continue
			}
			bo, ok := ifi.Cond.(*ssa.BinOp)
			if !ok || (bo.Op != token.EQL && bo.Op != token.NEQ) {
				continue
			}
			if n, ok := w.tokenTypeConst(bo.Y, lf); !ok || n != "NEWLINE" {
				continue
			}
			tv := bo.X
			if _, ok := typeCallToken(w, tv); !ok {
				continue
			}
			notNL := b.Succs[1]
			if bo.Op == token.NEQ {
				notNL = b.Succs[0]
			}
			// follow the other side up to the next decision
			verdict := ""
			seen := map[*ssa.BasicBlock]bool{}
			var walk func(blk *ssa.BasicBlock, depth int)
			walk = func(blk *ssa.BasicBlock, depth int) {
				if seen[blk] || depth > 6 || verdict != "" {
					return
				}
				seen[blk] = true
				for _, ins := range blk.Instrs {
					switch x := ins.(type) {
					case *ssa.Call:
						callee := x.Call.StaticCallee()
						if callee != nil && pkgOf(callee) == w.Pkgs["parser"].Types && !isTokenPeek(callee) && (isTokenConsumer(callee) || consumes(callee, 0)) {
							// consuming the tested token itself is not "parsing on"
							if isTokenConsumer(callee) {
								continue
							}
							verdict = "parses on with " + callee.Name()
							return
						}
					case *ssa.If:
						if mentions(x.Cond, tv) {
							verdict = "tested"
							return
						}
					case *ssa.Return:
						return
					}
				}
				for _, s := range blk.Succs {
					walk(s, depth+1)
				}
			}
			walk(notNL, 0)
			// a test of the same token's type made before this one (termination list first)
			if verdict != "" && verdict != "tested" {
				for d := b.Idom(); d != nil; d = d.Idom() {
					if len(d.Instrs) == 0 {
						continue
					}
					if pi, ok := d.Instrs[len(d.Instrs)-1].(*ssa.If); ok && pi != ifi && mentions(pi.Cond, tv) {
						if pb, ok := pi.Cond.(*ssa.BinOp); ok {
							if n, ok := w.tokenTypeConst(pb.Y, lf); ok && n == "NEWLINE" {
								continue
							}
						}
						verdict = "tested"
						break
					}
				}
			}
			if verdict == "" {
				continue // neither parses nor tests: not a terminator decision (skipping blank lines, error exit)
			}
			perFn[fn]++
			key := fmt.Sprintf("eof:%s#%d", FuncName(fn), perFn[fn])
			pos := w.Pos(tv.Pos())
			if verdict == "tested" {
				r.Ok(rule, key, pos, "the token type tested against NEWLINE is tested further before anything is parsed")
			} else {
				r.Bad(rule, key, pos, "the look-ahead takes NEWLINE as the end of the construct but "+verdict+" for every other token, including the end of the input: the same program is accepted with a final newline and rejected without it")
			}
		}
	}
}

// IntLiteralRule: "integers keep their value": the number stored in an integer literal node
// is the result of an integer parser (strconv.Atoi / ParseInt) applied to the token's
// text; a detour through a floating-point type rounds every literal above 2^53.
func IntLiteralRule(w *World, r *Result, rule string) {
	n := 0
	for _, fn := range w.Funcs("parser") {
		for _, b := range fn.Blocks {
			for _, ins := range b.Instrs {
				st, ok := ins.(*ssa.Store)
				if !ok {
					continue
				}
				fa, ok := st.Addr.(*ssa.FieldAddr)
				if !ok || !isInt(st.Val.Type()) {
					continue
				}
				pt, ok := fa.X.Type().Underlying().(*types.Pointer)
				if !ok {
					continue
				}
				named, ok := pt.Elem().(*types.Named)
				if !ok || named.Obj().Name() != "IntegerLiteral" {
					continue
				}
				// only values computed from text (constants are the parser's own literals)
				if _, isConst := st.Val.(*ssa.Const); isConst {
					continue
				}
				n++
				key := fmt.Sprintf("intliteral:%s", FuncName(fn))
				verdict := ""
				seen := map[ssa.Value]bool{}
				var back func(v ssa.Value, d int)
				back = func(v ssa.Value, d int) {
					if d > 6 || seen[v] || verdict == "bad" || verdict == "base" {
						return
					}
					seen[v] = true
					switch x := v.(type) {
					case *ssa.Convert:
						if b, ok := x.X.Type().Underlying().(*types.Basic); ok && b.Info()&types.IsFloat != 0 {
							verdict = "bad"
							return
						}
						back(x.X, d+1)
					case *ssa.Extract:
						back(x.Tuple, d+1)
					case *ssa.Call:
						switch calleeName(x) {
						case "strconv.Atoi", "strconv.ParseInt":
							// in base ten: base 0 lets a leading zero select octal (010 is 8) and 0x hex
							if calleeName(x) == "strconv.ParseInt" && len(x.Call.Args) >= 2 {
								if k, ok := x.Call.Args[1].(*ssa.Const); !ok || k.Value == nil || k.Int64() != 10 {
									verdict = "base"
									return
								}
							}
							if verdict == "" {
								verdict = "ok"
							}
						case "strconv.ParseFloat":
							verdict = "bad"
						default:
							if verdict == "" {
								verdict = "unknown:" + calleeName(x)
							}
						}
					case *ssa.Phi:
						for _, e := range x.Edges {
							back(e, d+1)
						}
					case *ssa.BinOp:
						back(x.X, d+1)
						back(x.Y, d+1)
					case *ssa.UnOp:
						back(x.X, d+1)
					}
				}
				back(st.Val, 0)
				switch {
				case verdict == "ok":
					r.Ok(rule, key, w.Pos(st.Pos()), "integer literal value = result of strconv.Atoi / ParseInt on the token text")
				case verdict == "base":
					r.Bad(rule, key, w.Pos(st.Pos()), "the integer parser is not told base ten: with base 0 a leading zero selects octal (010 becomes 8, 08 is rejected) and 0x… hexadecimal – the literal no longer keeps the value its digits spell")
				case verdict == "bad":
					r.Bad(rule, key, w.Pos(st.Pos()), "the value of an integer literal passes through a floating-point number: literals above 2^53 are rounded (9007199254740993 becomes …992) and the largest int64 overflows")
				default:
					r.Bad(rule, key, w.Pos(st.Pos()), "cannot show that the value of an integer literal is the result of an integer parser ("+verdict+")")
				}
			}
		}
	}
	if n == 0 {
		r.Bad(rule, "intliteral:none", "-", "no construction of an integer literal from token text found")
	}
}

// c12CloseAfterNewline (R-C12-nl, clause "close"): where a token decision accepts both a
// closing bracket and NEWLINE as alternatives, the NEWLINE alternative leads — after any
// run of further newlines — to a decision that still accepts the closing bracket. A NEWLINE
// alternative that goes straight on to "the next element" makes the bracket unacceptable
// after a blank or comment-only line, although it is accepted directly after the last
// element: acceptance would depend on layout.
func c12CloseAfterNewline(w *World, r *Result) {
	rule := "R-C12-nl"
	lf, err := BuildLexFacts(w)
	if err != nil {
		return
	}
	ppkg := w.Pkgs["parser"].Types
	isTokenCall := func(v ssa.Value) bool {
		c, ok := v.(*ssa.Call)
		if !ok {
			return false
		}
		n, ok := c.Type().(*types.Named)
		return ok && n.Obj().Name() == "Token" && n.Obj().Pkg() == w.Pkgs["lexer"].Types
	}
	// newline skippers: parser functions whose token decisions test NEWLINE only
	skipper := map[*ssa.Function]bool{}
	for _, fn := range w.Funcs("parser") {
		if fn.Signature.Results().Len() != 0 {
			continue
		}
		only, any := true, false
		for _, b := range fn.Blocks {
			for _, ins := range b.Instrs {
				if v, ok := ins.(ssa.Value); ok && isTokenCall(v) {
					cs := constantsTestedOn(w, lf, v)
					for k := range cs {
						any = true
						if k != "NEWLINE" {
							only = false
						}
					}
				}
			}
		}
		if only && any {
			skipper[fn] = true
		}
	}
	closing := func(cs map[string]bool) []string {
		var out []string
		for k := range cs {
			if strings.HasPrefix(k, "CLOSING_") {
				out = append(out, k)
			}
		}
		sort.Strings(out)
		return out
	}
	n := 0
	for _, fn := range w.Funcs("parser") {
		perFn := 0
		for _, b := range fn.Blocks {
			for _, ins := range b.Instrs {
				tok, ok := ins.(*ssa.Call)
				if !ok || !isTokenCall(tok) {
					continue
				}
				cs := constantsTestedOn(w, lf, tok)
				cl := closing(cs)
				if !cs["NEWLINE"] || len(cl) == 0 {
					continue
				}
				// the successor taken for NEWLINE
				var nlSuccs []*ssa.BasicBlock
				for _, blk := range fn.Blocks {
					cnd, neg := condOf(blk)
					if cnd == nil {
						continue
					}
					hit := false
					switch c := cnd.(type) {
					case *ssa.BinOp:
						if c.Op != token.EQL && c.Op != token.NEQ {
							continue
						}
						name, isK := w.tokenTypeConst(c.Y, lf)
						tv, isT := typeCallToken(w, c.X)
						if isK && isT && name == "NEWLINE" && tv == ssa.Value(tok) {
							hit = true
							if c.Op == token.NEQ {
								neg = !neg
							}
						}
					case *ssa.Call:
						if len(c.Call.Args) == 2 {
							if tv, isT := typeCallToken(w, c.Call.Args[1]); isT && tv == ssa.Value(tok) {
								for _, nm := range w.listConstants(c.Call.Args[0], lf) {
									if nm == "NEWLINE" {
										hit = true
									}
								}
							}
						}
					}
					if !hit {
						continue
					}
					if neg {
						nlSuccs = append(nlSuccs, blk.Succs[1])
					} else {
						nlSuccs = append(nlSuccs, blk.Succs[0])
					}
				}
				if len(nlSuccs) == 0 {
					continue
				}
				n++
				perFn++
				key := fmt.Sprintf("nl:close:%s#%d", FuncName(fn), perFn)
				pos := w.Pos(tok.Pos())
				// walk forward from the NEWLINE alternative to the next decision
				bad := ""
				type item struct {
					b *ssa.BasicBlock
					i int
				}
				seen := map[*ssa.BasicBlock]bool{}
				var queue []item
				for _, s := range nlSuccs {
					queue = append(queue, item{s, 0})
					seen[s] = true
				}
				for len(queue) > 0 && bad == "" {
					it := queue[0]
					queue = queue[1:]
					stopped := false
					for i := it.i; i < len(it.b.Instrs) && !stopped; i++ {
						c, ok := it.b.Instrs[i].(*ssa.Call)
						if !ok {
							continue
						}
						if c == tok {
							stopped = true // back at the same decision
							break
						}
						if isTokenCall(c) {
							cs2 := constantsTestedOn(w, lf, c)
							if len(cs2) == 0 {
								continue // consumed without a decision (the NEWLINE itself)
							}
							if len(cs2) == 1 && cs2["NEWLINE"] {
								continue // a run of further newlines is skipped here
							}
							for _, k := range cl {
								if !cs2[k] {
									bad = fmt.Sprintf("after a NEWLINE the next decision (%s, %s) accepts %v but not %s", FuncName(fn), w.Pos(c.Pos()), keys(cs2), k)
								}
							}
							stopped = true
							break
						}
						callee := c.Call.StaticCallee()
						if callee == nil || pkgOf(callee) != ppkg || callee.Blocks == nil {
							continue
						}
						if skipper[callee] {
							continue
						}
						if cs2, where, ok := nextTokenDecision(w, lf, callee, callee.Blocks[0], 0, 1, map[*ssa.BasicBlock]bool{}); ok {
							for _, k := range cl {
								if !cs2[k] {
									bad = fmt.Sprintf("after a NEWLINE the parser goes on to %s, whose first decision accepts %v but not %s", where, keys(cs2), k)
								}
							}
							stopped = true
						}
					}
					if stopped {
						continue
					}
					for _, sc := range it.b.Succs {
						if !seen[sc] {
							seen[sc] = true
							queue = append(queue, item{sc, 0})
						}
					}
				}
				if bad != "" {
					r.Bad(rule, key, pos, fmt.Sprintf("the decision accepts %v directly, and NEWLINE as an alternative, but %s: a closing bracket that is accepted right after the last element is rejected after a blank or comment-only line", cl, bad))
				} else {
					r.Ok(rule, key, pos, fmt.Sprintf("the NEWLINE alternative leads back to a decision that accepts %v", cl))
				}
			}
		}
	}
	if n == 0 {
		r.Triv(rule, "nl:close:none", "-", "no token decision offers both a closing bracket and NEWLINE as alternatives")
	}
}

// c12EOFNotEaten (R-C12-nl, clause "eof-eaten"): the end-of-file token is never consumed.
// Where a token taken with the consuming accessor is allowed to be EOF (the EOF alternative
// does not end in an error), everything that parses afterwards finds the token list
// exhausted instead of the EOF it tests for: a construct that may end the file is then
// accepted only when a NEWLINE follows it, i.e. acceptance depends on the final newline.
func c12EOFNotEaten(w *World, r *Result) {
	rule := "R-C12-nl"
	lf, err := BuildLexFacts(w)
	if err != nil {
		return
	}
	if _, ok := lf.TokenTypes["EOF"]; !ok {
		return
	}
	// consuming accessors: parser methods returning a token that advance an int field of the parser
	consuming := map[*ssa.Function]bool{}
	for _, fn := range w.Funcs("parser") {
		res := fn.Signature.Results()
		if res.Len() != 1 || namedName(res.At(0).Type()) != "Token" {
			continue
		}
		for _, b := range fn.Blocks {
			for _, ins := range b.Instrs {
				if st, ok := ins.(*ssa.Store); ok {
					if _, ok := st.Addr.(*ssa.FieldAddr); ok && isInt(st.Val.Type()) {
						consuming[fn] = true
					}
				}
			}
		}
	}
	n := 0
	for _, fn := range w.Funcs("parser") {
		perFn := 0
		for _, b := range fn.Blocks {
			for _, ins := range b.Instrs {
				tok, ok := ins.(*ssa.Call)
				if !ok || tok.Call.StaticCallee() == nil || !consuming[tok.Call.StaticCallee()] {
					continue
				}
				if !constantsTestedOn(w, lf, tok)["EOF"] {
					continue
				}
				// the successor taken when the token is EOF
				accepting := false
				for _, blk := range fn.Blocks {
					cnd, neg := condOf(blk)
					if cnd == nil {
						continue
					}
					hit := false
					switch c := cnd.(type) {
					case *ssa.BinOp:
						if c.Op != token.EQL && c.Op != token.NEQ {
							continue
						}
						name, isK := w.tokenTypeConst(c.Y, lf)
						tv, isT := typeCallToken(w, c.X)
						if isK && isT && name == "EOF" && tv == ssa.Value(tok) {
							hit = true
							if c.Op == token.NEQ {
								neg = !neg
							}
						}
					case *ssa.Call:
						if len(c.Call.Args) == 2 {
							if tv, isT := typeCallToken(w, c.Call.Args[1]); isT && tv == ssa.Value(tok) {
								for _, nm := range w.listConstants(c.Call.Args[0], lf) {
									if nm == "EOF" {
										hit = true
									}
								}
							}
						}
					}
					if !hit {
						continue
					}
					eofSucc := blk.Succs[0]
					if neg {
						eofSucc = blk.Succs[1]
					}
					if _, all := errorPaths(eofSucc, map[*ssa.BasicBlock]bool{}, 8); !all {
						accepting = true
					}
				}
				n++
				perFn++
				key := fmt.Sprintf("nl:eof-eaten:%s#%d", FuncName(fn), perFn)
				if accepting {
					r.Bad(rule, key, w.Pos(tok.Pos()), "a token taken with the consuming accessor may be the end-of-file token and parsing goes on: the EOF is gone for whatever parses next (the statement loop ends on EOF), so the construct is accepted in front of a final newline and rejected without one")
				} else {
					r.Ok(rule, key, w.Pos(tok.Pos()), "a consumed token that turns out to be EOF is an error")
				}
			}
		}
	}
	if n == 0 {
		r.Triv(rule, "nl:eof-eaten:none", "-", "no consumed token is compared with EOF")
	}
}

// c12ArmNeedsNewline (R-C12-drop, clause "needs-newline"): no arm of the lexer is taken only
// if a line break follows somewhere in the rest of the input. A lexeme that "ends at the
// next newline" also ends at the end of the file: an arm gated by a successful search for
// "\n" is not taken on the last line of a file without a final newline, which is then lexed
// differently (a comment becomes two division operators).
func c12ArmNeedsNewline(w *World, r *Result) {
	rule := "R-C12-drop"
	n := 0
	isNL := func(v ssa.Value) bool {
		k, ok := v.(*ssa.Const)
		if !ok || k.Value == nil {
			return false
		}
		switch k.Value.Kind() {
		case constant.String:
			return strings.Contains(constant.StringVal(k.Value), "\n")
		case constant.Int:
			return k.Int64() == 10
		}
		return false
	}
	var searches func(v ssa.Value, d int, seen map[ssa.Value]bool) *ssa.Call
	searches = func(v ssa.Value, d int, seen map[ssa.Value]bool) *ssa.Call {
		if v == nil || d > 5 || seen[v] {
			return nil
		}
		seen[v] = true
		switch x := v.(type) {
		case *ssa.Call:
			if callee := x.Call.StaticCallee(); callee != nil {
				switch callee.String() {
				case "strings.Index", "strings.IndexByte", "strings.IndexRune", "strings.IndexAny", "strings.Contains", "strings.ContainsRune", "strings.ContainsAny", "strings.Cut", "bytes.IndexByte":
					for _, a := range x.Call.Args[1:] {
						if isNL(a) {
							return x
						}
					}
				}
			}
		case *ssa.BinOp:
			if c := searches(x.X, d+1, seen); c != nil {
				return c
			}
			return searches(x.Y, d+1, seen)
		case *ssa.UnOp:
			return searches(x.X, d+1, seen)
		case *ssa.Extract:
			return searches(x.Tuple, d+1, seen)
		case *ssa.Phi:
			for _, e := range x.Edges {
				if c := searches(e, d+1, seen); c != nil {
					return c
				}
			}
		}
		return nil
	}
	seenSearch := map[*ssa.Call]bool{}
	for _, fn := range w.Funcs("lexer") {
		for _, b := range fn.Blocks {
			cnd, _ := condOf(b)
			if cnd == nil {
				continue
			}
			call := searches(cnd, 0, map[ssa.Value]bool{})
			// the first operand of a short-circuit conjunction sits in a dominating block
			if call == nil {
				continue
			}
			// does either side build a token?
			builds := false
			for _, sc := range b.Succs {
				for _, blk := range fn.Blocks {
					if blk != sc && !sc.Dominates(blk) {
						continue
					}
					if len(sc.Preds) != 1 {
						continue
					}
					for _, ins := range blk.Instrs {
						if c, ok := ins.(*ssa.Call); ok && namedName(c.Type()) == "Token" {
							builds = true
						}
					}
				}
			}
			if !builds || seenSearch[call] {
				continue
			}
			seenSearch[call] = true
			n++
			r.Bad(rule, fmt.Sprintf("needs-newline:%s#%d", FuncName(fn), n), w.Pos(call.Pos()), "a token is only built when a search for a line break in the rest of the input succeeds: on the last line of a file that does not end in a newline the arm is not taken and the text is lexed differently")
		}
	}
	if n == 0 {
		r.Ok(rule, "needs-newline:none", "-", "no arm of the lexer depends on a line break being found in the rest of the input")
	}
}

// c12NilStatement (R-C12-nl, clause "nil-statement"): a blank or comment-only line yields no
// statement (a nil value that the block reader tests for). Such a value must not be recorded
// anywhere outside the not-nil side of that test: recorded as "the last statement" it makes
// the blank line visible to later checks (a function must end in return — unless an empty
// line follows the return).
func c12NilStatement(w *World, r *Result) {
	rule := "R-C12-nl"
	pkg := w.Pkgs["parser"].Types
	so := pkg.Scope().Lookup("Statement")
	if so == nil {
		return
	}
	stmtIface, _ := so.Type().Underlying().(*types.Interface)
	n := 0
	for _, fn := range w.Funcs("parser") {
		perFn := 0
		// values that are tested against nil: may be "no statement"
		type test struct {
			v       ssa.Value
			nonNil  *ssa.BasicBlock
			theTest *ssa.BasicBlock
		}
		var tests []test
		for _, b := range fn.Blocks {
			cnd, neg := condOf(b)
			bo, ok := cnd.(*ssa.BinOp)
			if !ok || (bo.Op != token.NEQ && bo.Op != token.EQL) {
				continue
			}
			var v ssa.Value
			if k, ok := bo.Y.(*ssa.Const); ok && k.IsNil() {
				v = bo.X
			} else if k, ok := bo.X.(*ssa.Const); ok && k.IsNil() {
				v = bo.Y
			}
			if v == nil || stmtIface == nil || !types.Implements(v.Type(), stmtIface) {
				continue
			}
			if _, isIface := v.Type().Underlying().(*types.Interface); !isIface {
				continue
			}
			nonNil := b.Succs[0]
			if (bo.Op == token.EQL) != neg {
				nonNil = b.Succs[1]
			}
			tests = append(tests, test{v, nonNil, b})
		}
		for _, t := range tests {
			if naturalLoops(fn)[t.theTest] == nil {
				continue // only the statement loop of a block reader
			}
			refs := t.v.Referrers()
			if refs == nil {
				continue
			}
			for _, ref := range *refs {
				st, ok := ref.(*ssa.Store)
				if !ok || st.Val != t.v {
					continue
				}
				n++
				perFn++
				key := fmt.Sprintf("nl:nil-statement:%s#%d", FuncName(fn), perFn)
				guarded := st.Block() == t.nonNil || (t.nonNil.Dominates(st.Block()) && len(t.nonNil.Preds) == 1)
				// the varargs array of append(list, stmt) on the not-nil side is the normal case
				if guarded {
					r.Ok(rule, key, w.Pos(st.Pos()), "the statement is recorded on the not-nil side of its test only")
				} else {
					r.Bad(rule, key, w.Pos(st.Pos()), "a value that is nil for a blank or comment-only line is recorded without regard to the nil test: an empty line is then seen as \"the last statement\" by later checks, so inserting one (after a final return, for instance) changes whether the program is accepted")
				}
			}
		}
	}
	if n == 0 {
		r.Triv(rule, "nl:nil-statement:none", "-", "no statement value that may be nil is recorded")
	}
}

// srcChecker decides whether a value of a lexer function derives from the source text (the
// source parameter, slices of it, results of probes applied to it, strings.Split/Count/Index
// and len of those) or from something else (a decoded value, a decoder's result). Product
// functions of the lexer package are followed into: a position returned by a scanning helper
// is judged by the helper's own assignments.
type srcDef struct {
	rhs ast.Expr
	acc bool
	idx int // result index when rhs is one call assigned to several variables, else -1
}

type srcChecker struct {
	w        *World
	info     *types.Info
	fn       *ast.FuncDecl
	defs     map[types.Object][]srcDef
	params   map[types.Object]bool
	intScope ast.Node // integers: follow only assignments inside this node (nil: all of fn)
	nest     int
}

func newSrcChecker(w *World, info *types.Info, fn *ast.FuncDecl, intScope ast.Node, nest int) *srcChecker {
	sc := &srcChecker{w: w, info: info, fn: fn, defs: map[types.Object][]srcDef{}, params: map[types.Object]bool{}, intScope: intScope, nest: nest}
	ast.Inspect(fn, func(n ast.Node) bool {
		switch s := n.(type) {
		case *ast.AssignStmt:
			for i, l := range s.Lhs {
				o := sc.objOf(l)
				if o == nil {
					continue
				}
				var rhs ast.Expr
				idx := -1
				if len(s.Rhs) == len(s.Lhs) {
					rhs = s.Rhs[i]
				} else if len(s.Rhs) == 1 {
					rhs = s.Rhs[0]
					idx = i
				}
				sc.defs[o] = append(sc.defs[o], srcDef{rhs, s.Tok == token.ADD_ASSIGN && isString(o.Type()), idx})
			}
		case *ast.ValueSpec:
			for i, nm := range s.Names {
				if o := info.Defs[nm]; o != nil {
					if i < len(s.Values) && len(s.Values) == len(s.Names) {
						sc.defs[o] = append(sc.defs[o], srcDef{s.Values[i], false, -1})
					} else if len(s.Values) == 1 {
						sc.defs[o] = append(sc.defs[o], srcDef{s.Values[0], false, i})
					}
				}
			}
		}
		return true
	})
	if fn.Type.Params != nil {
		for _, f := range fn.Type.Params.List {
			for _, nm := range f.Names {
				sc.params[info.Defs[nm]] = true
			}
		}
	}
	return sc
}

func (sc *srcChecker) objOf(e ast.Expr) types.Object {
	id, ok := e.(*ast.Ident)
	if !ok {
		return nil
	}
	if o := sc.info.Defs[id]; o != nil {
		return o
	}
	return sc.info.Uses[id]
}

var srcOkCalls = map[string]bool{"strings.Split": true, "strings.Count": true, "strings.Index": true, "strings.LastIndex": true, "strings.ReplaceAll": true, "strings.SplitN": true, "strings.TrimRight": true, "strings.TrimLeft": true, "strings.HasPrefix": true, "strings.HasSuffix": true}

// check returns "" when e derives from the source text, otherwise what it derives from.
// want is the result index when e is a call that yields several values.
func (sc *srcChecker) check(e ast.Expr, seen map[types.Object]bool, depth int, want int) string {
	info := sc.info
	if e == nil || depth > 12 {
		return ""
	}
	if tv, ok := info.Types[e]; ok && tv.Value != nil {
		return ""
	}
	switch x := e.(type) {
	case *ast.ParenExpr:
		return sc.check(x.X, seen, depth+1, want)
	case *ast.BinaryExpr:
		if m := sc.check(x.X, seen, depth+1, -1); m != "" {
			return m
		}
		return sc.check(x.Y, seen, depth+1, -1)
	case *ast.UnaryExpr:
		return sc.check(x.X, seen, depth+1, -1)
	case *ast.IndexExpr:
		return sc.check(x.X, seen, depth+1, -1) // the index selects, it does not contribute text
	case *ast.SliceExpr:
		return sc.check(x.X, seen, depth+1, -1)
	case *ast.Ident:
		o := sc.objOf(x)
		if o == nil || sc.params[o] || seen[o] {
			return ""
		}
		if _, isVar := o.(*types.Var); !isVar {
			return ""
		}
		seen[o] = true
		ds := sc.defs[o]
		if !isString(o.Type()) {
			if b, ok := o.Type().Underlying().(*types.Basic); ok && b.Info()&types.IsInteger != 0 {
				// integer positions (i, ogI, column …): follow only assignments inside the scanning loop
				for _, d := range ds {
					if d.rhs != nil && (sc.intScope == nil || within(sc.intScope, d.rhs.Pos())) {
						if m := sc.check(d.rhs, seen, depth+1, d.idx); m != "" {
							return m
						}
					}
				}
				return ""
			}
		}
		for _, d := range ds {
			if d.acc {
				return fmt.Sprintf("%s, which is accumulated piecewise (the decoded value of the token)", x.Name)
			}
			if m := sc.check(d.rhs, seen, depth+1, d.idx); m != "" {
				return m
			}
		}
		return ""
	case *ast.CallExpr:
		if id, ok := x.Fun.(*ast.Ident); ok && (id.Name == "len" || id.Name == "string" || id.Name == "min" || id.Name == "max") {
			if _, isBuiltin := info.Uses[id].(*types.Builtin); isBuiltin || id.Name == "string" {
				for _, a := range x.Args {
					if m := sc.check(a, seen, depth+1, -1); m != "" {
						return m
					}
				}
				return ""
			}
		}
		if o := calleeObj(info, x); o != nil && o.Pkg() != nil {
			full := o.Pkg().Name() + "." + o.Name()
			if srcOkCalls[full] {
				for _, a := range x.Args {
					if m := sc.check(a, seen, depth+1, -1); m != "" {
						return m
					}
				}
				return ""
			}
			// regexp probes: result text is a piece of the argument
			if f, ok := o.(*types.Func); ok {
				if sig, ok := f.Type().(*types.Signature); ok && sig.Recv() != nil && strings.HasSuffix(sig.Recv().Type().String(), "regexp.Regexp") {
					for _, a := range x.Args {
						if m := sc.check(a, seen, depth+1, -1); m != "" {
							return m
						}
					}
					return ""
				}
			}
			// a function of the lexer itself: its arguments, then what it returns
			if decl := sc.declOf(o); decl != nil && decl.Body != nil && sc.nest < 3 {
				for _, a := range x.Args {
					if m := sc.check(a, seen, depth+1, -1); m != "" {
						return m
					}
				}
				callee := newSrcChecker(sc.w, info, decl, nil, sc.nest+1)
				if m := callee.checkResult(want); m != "" {
					return m + " (in " + o.Name() + ")"
				}
				return ""
			}
			return fmt.Sprintf("the result of %s (not a piece of the source text)", full)
		}
		return "the result of an unresolved call"
	}
	return ""
}

// declOf: the declaration of a function of the lexer package.
func (sc *srcChecker) declOf(o types.Object) *ast.FuncDecl {
	f, ok := o.(*types.Func)
	if !ok {
		return nil
	}
	pkg := sc.w.Pkgs["lexer"]
	if pkg == nil || f.Pkg() != pkg.Types {
		return nil
	}
	for _, file := range pkg.Syntax {
		for _, d := range file.Decls {
			if fd, ok := d.(*ast.FuncDecl); ok && pkg.TypesInfo.Defs[fd.Name] == o {
				return fd
			}
		}
	}
	return nil
}

// checkResult: result idx (0 when idx < 0) of every return statement of the function.
func (sc *srcChecker) checkResult(idx int) string {
	if idx < 0 {
		idx = 0
	}
	msg := ""
	ast.Inspect(sc.fn.Body, func(n ast.Node) bool {
		if msg != "" {
			return false
		}
		if _, ok := n.(*ast.FuncLit); ok {
			return false
		}
		ret, ok := n.(*ast.ReturnStmt)
		if !ok {
			return true
		}
		switch {
		case len(ret.Results) == 0:
			// named results
			k := 0
			if sc.fn.Type.Results != nil {
				for _, f := range sc.fn.Type.Results.List {
					for _, nm := range f.Names {
						if k == idx {
							msg = sc.check(nm, map[types.Object]bool{}, 0, -1)
						}
						k++
					}
				}
			}
		case len(ret.Results) == 1 && idx > 0:
			msg = sc.check(ret.Results[0], map[types.Object]bool{}, 0, idx)
		case idx < len(ret.Results):
			msg = sc.check(ret.Results[idx], map[types.Object]bool{}, 0, -1)
		}
		return true
	})
	return msg
}
