package an

import (
	"fmt"
	"go/token"
	"regexp"
	"sort"
	"strings"

	"golang.org/x/tools/go/ssa"
)

// flatten a choice-free template into text with private-use placeholders.
func flattenPUA(t Tmpl) (string, []Part) {
	var sb strings.Builder
	var parts []Part
	var rec func(t Tmpl)
	rec = func(t Tmpl) {
		for _, p := range t {
			switch p := p.(type) {
			case Lit:
				sb.WriteString(p.S)
			case Rep:
				rec(p.Body)
			case Join:
				rec(p.Elem)
				rec(p.Sep)
				rec(p.Elem)
			default:
				sb.WriteRune(rune(0xE000 + len(parts)))
				parts = append(parts, p)
			}
		}
	}
	rec(t)
	return sb.String(), parts
}

func unflattenPUA(s string, parts []Part) Tmpl {
	var out Tmpl
	var cur strings.Builder
	for _, r := range s {
		if r >= 0xE000 && int(r-0xE000) < len(parts) {
			if cur.Len() > 0 {
				out = append(out, Lit{cur.String()})
				cur.Reset()
			}
			out = append(out, parts[r-0xE000])
			continue
		}
		cur.WriteRune(r)
	}
	if cur.Len() > 0 {
		out = append(out, Lit{cur.String()})
	}
	return out
}

// bashEvalArgs returns the text handed to eval in a line (the content of the
// double-quoted argument after the first level of unquoting), as templates.
func bashEvalArgs(t Tmpl) []Tmpl {
	s, parts := flattenPUA(t)
	var out []Tmpl
	idx := 0
	for {
		i := strings.Index(s[idx:], `eval "`)
		if i < 0 {
			break
		}
		start := idx + i + len(`eval "`)
		// must be a command word: preceded by start, blank, ( or ;
		if idx+i > 0 {
			pc := s[idx+i-1]
			if !(pc == ' ' || pc == '(' || pc == ';' || pc == '\t') {
				idx = start
				continue
			}
		}
		var arg strings.Builder
		j := start
		for j < len(s) {
			c := s[j]
			if c == '\\' && j+1 < len(s) {
				n := s[j+1]
				if n == '"' || n == '$' || n == '\\' || n == '`' {
					arg.WriteByte(n)
				} else {
					arg.WriteByte(c)
					arg.WriteByte(n)
				}
				j += 2
				continue
			}
			if c == '"' {
				break
			}
			arg.WriteByte(c)
			j++
		}
		out = append(out, unflattenPUA(arg.String(), parts))
		idx = j
		if idx >= len(s) {
			break
		}
	}
	return out
}

func init() {
	Registry["C08"] = runC08
}

// quoteVerdict judges one STR/PROG hole occurrence in a Bash line.
func quoteVerdict(h HoleCtx, cls HoleClass) (string, string) {
	switch {
	case h.InEval:
		// how the data sits in the text that eval parses again: inside \"…\", inside '…', or bare
		inner := "bare"
		esc := strings.Count(h.Prefix, "\"") // a quote inside the double-quoted eval argument was written as \\"
		sq := strings.Count(h.Prefix, "'")
		switch {
		case esc%2 == 1:
			inner = "dq"
		case sq%2 == 1:
			inner = "sq"
		}
		return "q2-eval/" + inner, "string data inside the argument of eval is parsed by the shell a second time (expansion / execution of the value; at the second level the data is " + map[string]string{"dq": "inside escaped double quotes: $, backquote, \\ and \" in the value are active", "sq": "inside single quotes: an apostrophe in the value ends the word and the rest is executed", "bare": "not quoted at all: blanks split it, every shell operator is active"}[inner] + ")"
	case cls == ClsStr && h.IsCmdWord:
		return "q5-command", "string data in command position"
	case h.Quote == "sq":
		return "sq", "reference inside single quotes is not expanded"
	case h.Quote != "dq":
		return "q1-unquoted", "string data outside double quotes undergoes word splitting and globbing"
	case h.Cmd == "echo" && h.ArgIndex == 1 && h.WordStart:
		return "q4-echo-option", "string data is the first argument of echo: a value such as -n or -e is taken as an option"
	}
	return "", ""
}

func runC08(w *World) *Result {
	r := NewResult("C08")
	r.Explanation = "Decides, for the Bash back end, the lexical context of every emitted hole that can carry user string data (STR/PROG classes): every line template of every converter method and helper routine is extracted from the converter's SSA by an abstract interpretation in a template domain and scanned with a Bash lexical scanner (quote state, command word, eval scope, echo option position); positional parameters of helper routines are linked to the classes passed at their call templates; the literal-text conversion function must neutralise the characters active inside double quotes. This is a necessary condition per (emitting site, hole) for string opacity."
	r.NotDecided = "byte-for-byte fidelity of values at run time (what bash does with the emitted lines); embedded newlines in echo; locale effects."
	rq := r.Rule("R-C08-quote", "every STR/PROG hole of every Bash line template sits in a double-quoted word at its innermost lexical level, outside eval arguments, not as echo's first argument, not in command position, and its quoting does not depend on the data", 8)
	re := r.Rule("R-C08-escape", "the Bash literal-text conversion neutralises \\ \" $ and backquote; in both back ends no replacement of the conversion chain rewrites text an earlier one introduced", 3)
	rr := r.Rule("R-C08-roundtrip", "no array element / run-time value is read back through an unquoted echo inside eval, and read uses -r", 2)
	_ = rq
	_ = re
	_ = rr
	EscapeOrderRule(w, "bash", r, "R-C08-escape")
	EscapeOrderRule(w, "batch", r, "R-C08-escape")
	r.Rule("R-C08-atom", "every value-producing method hands back one unit of shell text (one expansion, one literal, the value it was handed)", 6)
	if ab, err := BuildBackend(w, "bash"); err == nil {
		ValueAtomRule(w, ab, r, "R-C08-atom")
	}
	r.Rule("R-C08-lexdecode", "in the loop that decodes string literals, every character copied verbatim comes from the position that was probed for an escape sequence in the same iteration", 1)
	LexDecodeRule(w, r, "R-C08-lexdecode")
	r.Rule("R-C08-state", "converted literal text is not kept on the transpiler object from one target to the next (no state across Transpile calls)", 1)
	c14TranspileState(w, r, "R-C08-state")
	r.Rule("R-C08-driver", "the driver never works on the text of a string itself: length, subscript, comparison and concatenation of strings are handed to the converter on every path (the text it holds is the escaped form of one target)", 3)
	ProtoRule(w, r, "R-C08-driver", func(n string) bool {
		switch n {
		case "Len", "StringSubscript", "StringLiteral", "Comparison", "BinaryOperation":
			return true
		}
		return false
	})
	b, err := BuildBackend(w, "bash")
	if err != nil {
		r.Bad("R-C08-quote", "extract:bash", "-", err.Error())
		return r
	}
	for _, u := range b.Undecided {
		r.Bad("R-C08-quote", "undecided:"+u, "-", u)
	}
	r.Analysed["bash_methods"] = len(b.X.Methods)
	r.Analysed["bash_line_variants"] = len(b.Lines)
	r.Analysed["bash_helpers"] = len(b.Helpers)
	c08Quote(w, b, r, nil)
	c08Escape(w, b, r)
	return r
}

// c08Quote runs the quoting rules; filter restricts to some methods (C17/C18 reuse).
func c08Quote(w *World, b *Backend, r *Result, filter func(method string) bool) {
	rule := "R-C08-quote"
	type key struct{ method, hole, verdict string }
	type occ struct {
		verdict, why, pos string
		line              Tmpl
	}
	seen := map[key]bool{}
	occs := map[[2]string][]occ{}
	var order [][2]string
	emit := func(method, hole, verdict, why, pos string, line Tmpl) {
		k := key{method, hole, verdict}
		if seen[k] {
			return
		}
		seen[k] = true
		mh := [2]string{method, hole}
		if _, ok := occs[mh]; !ok {
			order = append(order, mh)
		}
		occs[mh] = append(occs[mh], occ{verdict, why, pos, line})
	}
	defer func() {
		for _, mh := range order {
			c := fmt.Sprintf("quote:bash:%s:%s", mh[0], mh[1])
			bad := false
			for _, o := range occs[mh] {
				if o.verdict != "" {
					bad = true
					r.Bad(rule, c+":"+o.verdict, o.pos, o.why+": "+o.line.String())
				}
			}
			if !bad {
				o := occs[mh][0]
				r.Ok(rule, c, o.pos, "double-quoted at innermost level, outside eval: "+o.line.String())
			}
		}
	}()
	// helper call sites: class of each positional argument
	argClass := map[string]map[int]HoleClass{}
	for _, l := range b.Lines {
		if l.Bash == nil {
			continue
		}
		for _, h := range l.Bash.Holes {
			if _, ok := b.Helpers[h.Cmd]; ok && !h.IsCmdWord {
				cls := classOfOrigin(h.Origin, l.CellType)
				if argClass[h.Cmd] == nil {
					argClass[h.Cmd] = map[int]HoleClass{}
				}
				old := argClass[h.Cmd][h.ArgIndex]
				if old == "" || cls == ClsStr {
					argClass[h.Cmd][h.ArgIndex] = cls
				}
			}
		}
	}
	for _, l := range b.Lines {
		if l.Bash == nil {
			continue
		}
		method := l.Method
		if l.Em.Helper != "" {
			method = "helper:" + l.Em.Helper
		}
		if filter != nil && !filter(method) {
			continue
		}
		pos := w.Pos(l.Em.Pos)
		if !l.Bash.Closed && !l.Bash.Comment && len(l.DataDep) > 0 {
			// the unbalanced variants stem from quoting that depends on the data; reported below per hole
		} else if !l.Bash.Closed && !l.Bash.Comment {
			r.Bad(rule, fmt.Sprintf("scan:bash:%s", method), pos, "line template cannot be scanned ("+l.Bash.Problem+"): "+l.Variant.String())
			continue
		}
		for _, h := range l.Bash.Holes {
			cls := classOfOrigin(h.Origin, l.CellType)
			if h.Numeric || (cls != ClsStr && cls != ClsProg && cls != ClsAny) {
				continue
			}
			hole := shortOrigin(h.Origin)
			if cls == ClsAny {
				emit(method, hole, "unclassified", "hole of unknown origin: the driver-side class table has no entry (new emitting parameter?)", pos, l.Variant)
				continue
			}
			dep := false
			for _, d := range l.DataDep {
				if d == h.Origin {
					dep = true
				}
			}
			if dep {
				emit(method, hole, "data-dependent", "the quoting placed around the value depends on the value's own first/last characters or content", pos, l.Em.T)
				continue
			}
			v, why := quoteVerdict(h, cls)
			if cls == ClsProg && v == "q5-command" {
				v, why = "", ""
			}
			if cls == ClsProg && h.IsCmdWord && h.Quote != "dq" {
				v, why = "q1-unquoted", "program name taken from a string literal is emitted unquoted in command position"
			}
			emit(method, hole, v, why, pos, l.Variant)
		}
		// positional parameters and data variables of helper bodies
		if l.Em.Helper != "" {
			for _, e := range l.Bash.Exps {
				n := 0
				if _, err := fmt.Sscanf(e.Name, "%d", &n); err != nil || n == 0 {
					continue
				}
				cls := argClass[l.Em.Helper][n]
				if cls != ClsStr {
					continue
				}
				hole := fmt.Sprintf("$%d", n)
				switch {
				case e.InEval:
					emit(method, hole, "q2-eval", "string argument of the helper is expanded inside the argument of eval (parsed twice)", pos, l.Variant)
				case e.Quote != "dq" && !e.InArith:
					emit(method, hole, "q1-unquoted", "string argument of the helper is expanded outside double quotes", pos, l.Variant)
				default:
					emit(method, hole, "", "", pos, l.Variant)
				}
			}
		}
	}
	if filter != nil {
		return
	}
	// round trips: second-level scan of eval arguments, read without -r
	rt := "R-C08-roundtrip"
	seenRT := map[string]bool{}
	for _, l := range b.Lines {
		if l.Bash == nil {
			continue
		}
		method := l.Method
		if l.Em.Helper != "" {
			method = "helper:" + l.Em.Helper
		}
		pos := w.Pos(l.Em.Pos)
		for _, arg := range bashEvalArgs(l.Variant) {
			inner := ScanBash(arg)
			for _, e := range inner.Exps {
				if e.Op != "[" {
					continue
				}
				c := fmt.Sprintf("roundtrip:bash:%s:element-read", method)
				if seenRT[c] {
					continue
				}
				seenRT[c] = true
				if e.Quote != "dq" {
					r.Bad(rt, c, pos, "array element (string data) is expanded unquoted in the text eval executes (`"+arg.String()+"`): blanks collapse and glob characters expand")
				} else {
					r.Ok(rt, c, pos, "element expansion quoted at eval level: "+arg.String())
				}
			}
		}
		for _, cmd := range l.Bash.Commands {
			if cmd != "read" {
				continue
			}
			// every emitted form of the line is judged (a prompt and a no-prompt form are two lines)
			txt, _ := flattenPUA(l.Variant)
			c := fmt.Sprintf("roundtrip:bash:%s:read", method)
			for k := 2; seenRT[c]; k++ {
				c = fmt.Sprintf("roundtrip:bash:%s:read#%d", method, k)
			}
			seenRT[c] = true
			switch {
			case !strings.Contains(txt, " -r"):
				r.Bad(rt, c, pos, "run-time input is read without -r (backslashes are consumed, IFS trimming applies): "+l.Variant.String())
			case !regexp.MustCompile(`(^|[;&|({]|\s)IFS=\s+read\b`).MatchString(txt):
				r.Bad(rt, c, pos, "run-time input is read with the default IFS: leading and trailing blanks of the line are dropped: "+l.Variant.String())
			default:
				r.Ok(rt, c, pos, "IFS= read -r: "+l.Variant.String())
			}
		}
	}
}

func c08Escape(w *World, b *Backend, r *Result) {
	rule := "R-C08-escape"
	mf := b.X.Methods["StringToString"]
	if mf == nil || len(mf.Returns) == 0 {
		r.Bad(rule, "escape:bash:StringToString", "-", "literal conversion method not found")
		return
	}
	t := asTmpl(mf.Returns[0])
	pos := w.Pos(mf.Fn.Pos())
	need := map[string]bool{`\`: true, `"`: true, `$`: true, "`": true}
	for _, h := range t.Holes() {
		rest := h.Origin
		for {
			i := strings.Index(rest, "~replaced(")
			if i < 0 {
				break
			}
			rest = rest[i+len("~replaced("):]
			// %q→%q rendering
			var from, to string
			if _, err := fmt.Sscanf(rest, "%q→%q", &from, &to); err == nil {
				if to == `\`+from || (len(to) > len(from) && strings.HasSuffix(to, from)) {
					delete(need, from)
				}
			}
		}
	}
	if len(t.Holes()) == 0 {
		r.Bad(rule, "escape:bash:StringToString", pos, "conversion result does not contain the literal text: "+t.String())
		return
	}
	if len(need) > 0 {
		var miss []string
		for k := range need {
			miss = append(miss, k)
		}
		sort.Strings(miss)
		r.Bad(rule, "escape:bash:StringToString", pos, fmt.Sprintf("literal text is emitted without neutralising %v (result template %s): a literal containing them breaks out of the double-quoted word or is expanded", miss, t))
	} else {
		r.Ok(rule, "escape:bash:StringToString", pos, "replacement chain covers \\ \" $ `: "+t.String())
	}
}

// EscapeOrderRule: the literal-text conversion of a back end is a chain of replacements.
// A replacement must not introduce text that a later replacement of the chain rewrites
// (newline → !LF! placed before ! → ^! turns the inserted !LF! into ^!LF^!), and every
// path through the function applies the escaping replacements (none is skipped by an
// early return).
func EscapeOrderRule(w *World, role string, r *Result, rule string) {
	var fn *ssa.Function
	for _, f := range w.Funcs(role) {
		if f.Name() == "StringToString" && f.Signature.Recv() != nil {
			fn = f
		}
	}
	key := "escape:" + role + ":order"
	if fn == nil {
		r.Bad(rule, key, "-", "literal conversion method not found in the "+role+" converter")
		return
	}
	type repl struct {
		call     *ssa.Call
		old, new string
	}
	var reps []repl
	for _, b := range fn.Blocks {
		for _, ins := range b.Instrs {
			c, ok := ins.(*ssa.Call)
			if !ok {
				continue
			}
			if n := calleeName(c); n != "strings.ReplaceAll" && n != "strings.Replace" {
				continue
			}
			o, ok1 := c.Call.Args[1].(*ssa.Const)
			nw, ok2 := c.Call.Args[2].(*ssa.Const)
			if !ok1 || !ok2 || o.Value == nil || nw.Value == nil {
				r.Bad(rule, key, w.Pos(c.Pos()), "replacement with non-constant texts in the literal conversion")
				return
			}
			reps = append(reps, repl{c, constStringVal(o), constStringVal(nw)})
		}
	}
	if len(reps) == 0 {
		r.Ok(rule, key, w.Pos(fn.Pos()), "no replacement chain (nothing can be re-escaped)")
		return
	}
	// feeds: result of a flows (through phis) into the subject of b
	var flows func(v ssa.Value, target *ssa.Call, seen map[ssa.Value]bool) bool
	flows = func(v ssa.Value, target *ssa.Call, seen map[ssa.Value]bool) bool {
		if seen[v] {
			return false
		}
		seen[v] = true
		for _, ref := range *v.Referrers() {
			switch x := ref.(type) {
			case *ssa.Call:
				if x == target && x.Call.Args[0] == v {
					return true
				}
				if n := calleeName(x); (n == "strings.ReplaceAll" || n == "strings.Replace") && x.Call.Args[0] == v {
					if flows(x, target, seen) {
						return true
					}
				}
			case *ssa.Phi:
				if flows(x, target, seen) {
					return true
				}
			}
		}
		return false
	}
	bad := ""
	for _, a := range reps {
		for _, b := range reps {
			if a.call == b.call || !flows(a.call, b.call, map[ssa.Value]bool{}) {
				continue
			}
			if b.old != "" && strings.Contains(a.new, b.old) {
				bad = fmt.Sprintf("the replacement %q → %q runs before %q → %q and introduces text the later one rewrites: the inserted %q becomes %q", a.old, a.new, b.old, b.new, a.new, strings.ReplaceAll(a.new, b.old, b.new))
			}
		}
	}
	// every way out applies every replacement of the chain, unless the text to be replaced is
	// known to be absent on that way (a test strings.Contains(value, old) that failed)
	if bad == "" {
		type path struct {
			olds map[string]bool
			at   *ssa.BasicBlock
		}
		var chains func(v ssa.Value, at *ssa.BasicBlock, d int) []path
		chains = func(v ssa.Value, at *ssa.BasicBlock, d int) []path {
			if d > 8 {
				return nil
			}
			switch x := v.(type) {
			case *ssa.Call:
				for _, rp := range reps {
					if rp.call == x {
						var out []path
						for _, p := range chains(x.Call.Args[0], at, d+1) {
							n := map[string]bool{rp.old: true}
							for k := range p.olds {
								n[k] = true
							}
							out = append(out, path{n, p.at})
						}
						return out
					}
				}
			case *ssa.Phi:
				var out []path
				for i, e := range x.Edges {
					out = append(out, chains(e, x.Block().Preds[i], d+1)...)
				}
				return out
			}
			return []path{{map[string]bool{}, at}}
		}
		absent := func(old string, at *ssa.BasicBlock) bool {
			for d := at; d != nil; d = d.Idom() {
				par := d.Idom()
				if par == nil {
					break
				}
				c, neg := condOf(par)
				call, ok := c.(*ssa.Call)
				if !ok || calleeName(call) != "strings.Contains" || len(call.Call.Args) != 2 || len(par.Succs) != 2 {
					continue
				}
				k, ok := call.Call.Args[1].(*ssa.Const)
				if !ok || k.Value == nil || constStringVal(k) != old {
					continue
				}
				if _, isParam := call.Call.Args[0].(*ssa.Parameter); !isParam {
					continue
				}
				notContained := par.Succs[1]
				if neg {
					notContained = par.Succs[0]
				}
				if (notContained == at || notContained.Dominates(at)) && len(notContained.Preds) == 1 {
					return true
				}
			}
			return false
		}
		for _, b := range fn.Blocks {
			ret, ok := b.Instrs[len(b.Instrs)-1].(*ssa.Return)
			if !ok || len(ret.Results) == 0 {
				continue
			}
			for _, p := range chains(ret.Results[0], b, 0) {
				for _, rp := range reps {
					if !p.olds[rp.old] && !absent(rp.old, p.at) {
						bad = fmt.Sprintf("on one way out of the literal conversion the replacement %q → %q is not applied, and nothing shows that the text holds no %q on that way: such a literal reaches the script unescaped", rp.old, rp.new, rp.old)
					}
				}
			}
		}
	}
	if bad != "" {
		r.Bad(rule, key, w.Pos(fn.Pos()), bad)
	} else {
		var ds []string
		for _, a := range reps {
			ds = append(ds, fmt.Sprintf("%q→%q", a.old, a.new))
		}
		r.Ok(rule, key, w.Pos(fn.Pos()), "replacement chain "+strings.Join(ds, ", ")+": no step rewrites text introduced by an earlier one")
	}
}

// LexDecodeRule: the lexer's literal decoder alternates between "an escape sequence starts
// here: decode it" and "copy this character". The copy is only right for a character that
// the escape probe has looked at: a character fetched from another position (the one behind
// a decoded sequence) and copied without a new probe turns a following escape sequence into
// literal backslash text ("\t\t" becomes TAB \ t).  Decided on SSA: the position of every
// verbatim-copied character is the very position value the probe was applied to.
func LexDecodeRule(w *World, r *Result, rule string) {
	ce := newCharEngine(w)
	n := 0
	for _, fn := range w.Funcs("lexer") {
		loops := naturalLoops(fn)
		for _, b := range fn.Blocks {
			for _, ins := range b.Instrs {
				uq, ok := ins.(*ssa.Call)
				if !ok || uq.Call.StaticCallee() == nil || uq.Call.StaticCallee().String() != "strconv.Unquote" {
					continue
				}
				hdr := loops[b]
				if hdr == nil {
					continue
				}
				n++
				key := fmt.Sprintf("lexdecode:%s#%d", FuncName(fn), n)
				pos := w.Pos(uq.Pos())
				// the probe: a regex applied to source[q:] whose match feeds the decoder
				var probePos, probeSrc ssa.Value
				var findProbe func(v ssa.Value, d int)
				seenV := map[ssa.Value]bool{}
				findProbe = func(v ssa.Value, d int) {
					if v == nil || d > 8 || seenV[v] || probePos != nil {
						return
					}
					seenV[v] = true
					switch x := v.(type) {
					case *ssa.Call:
						if callee := x.Call.StaticCallee(); callee != nil && strings.HasPrefix(callee.String(), "(*regexp.Regexp).Find") {
							for _, a := range x.Call.Args {
								if sl, ok := a.(*ssa.Slice); ok && isString(sl.X.Type()) && sl.Low != nil && sl.High == nil {
									probePos, probeSrc = sl.Low, sl.X
								}
							}
							return
						}
						// formatting wrappers around the match (Sprintf(`"%s"`, match))
						for _, a := range x.Call.Args {
							findProbe(a, d+1)
						}
					case *ssa.Slice:
						findProbe(x.X, d+1)
					case *ssa.Alloc:
						for _, ref := range *x.Referrers() {
							if ia, ok := ref.(*ssa.IndexAddr); ok {
								for _, rr := range *ia.Referrers() {
									if st, ok := rr.(*ssa.Store); ok {
										findProbe(st.Val, d+1)
									}
								}
							}
						}
					case *ssa.MakeInterface:
						findProbe(x.X, d+1)
					case *ssa.Phi:
						for _, e := range x.Edges {
							findProbe(e, d+1)
						}
					case *ssa.BinOp:
						findProbe(x.X, d+1)
						findProbe(x.Y, d+1)
					case *ssa.Extract:
						findProbe(x.Tuple, d+1)
					case *ssa.UnOp:
						findProbe(x.X, d+1)
					case *ssa.IndexAddr:
						findProbe(x.X, d+1)
					}
				}
				findProbe(uq.Call.Args[0], 0)
				if probePos == nil {
					r.Bad(rule, key, pos, "cannot find the escape probe (a regular expression applied to the rest of the source) whose match is decoded")
					continue
				}
				// verbatim copies inside the same loop: acc + <one character of the source>
				body := loopBody(hdr)
				var bad []string
				copies := 0
				for blk := range body {
					for _, i2 := range blk.Instrs {
						// acc + c   or   builder.WriteString(c) / WriteByte(c)
						var copied ssa.Value
						var at token.Pos
						switch y := i2.(type) {
						case *ssa.BinOp:
							if y.Op == token.ADD && isString(y.Type()) {
								copied, at = y.Y, y.Pos()
							}
						case *ssa.Call:
							if callee := y.Call.StaticCallee(); callee != nil && len(y.Call.Args) == 2 {
								switch callee.String() {
								case "(*strings.Builder).WriteString", "(*strings.Builder).WriteByte", "(*strings.Builder).WriteRune", "(*bytes.Buffer).WriteString", "(*bytes.Buffer).WriteByte":
									copied, at = y.Call.Args[1], y.Pos()
								}
							}
						}
						if copied == nil {
							continue
						}
						var positions []ssa.Value
						var collect func(v ssa.Value, d int) bool
						collect = func(v ssa.Value, d int) bool {
							if d > 4 {
								return false
							}
							if ph, ok := v.(*ssa.Phi); ok {
								for _, e := range ph.Edges {
									if !collect(e, d+1) {
										return false
									}
								}
								return len(ph.Edges) > 0
							}
							sv, pv, _, ok := ce.operand(v)
							if !ok || !(sv == probeSrc || rootOf(sv, 0) == rootOf(probeSrc, 0)) {
								return false
							}
							positions = append(positions, pv)
							return true
						}
						if !collect(copied, 0) {
							continue
						}
						copies++
						for _, pv := range positions {
							if pv != probePos {
								bad = append(bad, w.Pos(at))
							}
						}
					}
				}
				switch {
				case len(bad) > 0:
					r.Bad(rule, key, pos, fmt.Sprintf("a character is copied verbatim (%s) from a position other than the one the escape probe was applied to in that iteration: an escape sequence directly behind another one is taken as literal text", strings.Join(uniq(bad), ", ")))
				case copies == 0:
					r.Bad(rule, key, pos, "no verbatim copy of a source character found in the decoding loop")
				default:
					r.Ok(rule, key, pos, fmt.Sprintf("%d verbatim copy site(s) take the character at the probed position", copies))
				}
			}
		}
	}
	if n == 0 {
		r.Bad(rule, "lexdecode:none", "-", "no escape decoding (strconv.Unquote) found in the lexer")
	}
}
