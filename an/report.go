package an

import (
	"encoding/json"
	"fmt"
	"os"
	"path/filepath"
	"sort"
	"strings"
	"time"
)

// Ob is one decided obligation of a rule: a construct of the code base and the
// verdict the rule reached for it.
type Ob struct {
	Rule       string `json:"rule"`
	Construct  string `json:"construct"` // stable key: never contains a line number
	Pos        string `json:"pos"`
	OK         bool   `json:"ok"`
	Detail     string `json:"detail"`
	Nontrivial bool   `json:"nontrivial"` // discharged by a real guard/path/template argument
}

// RuleInfo documents a rule and arms its minimum instance count.
type RuleInfo struct {
	ID   string
	Doc  string
	Min  int // the rule must decide at least this many obligations
	Seen int
}

// Result is what the rules of one property produced.
type Result struct {
	Property    string
	Rules       []*RuleInfo
	Obs         []Ob
	Analysed    map[string]int
	Explanation string
	NotDecided  string
	Assumptions []string
	Notes       []string
}

func NewResult(prop string) *Result {
	return &Result{Property: prop, Analysed: map[string]int{}}
}

func (r *Result) Rule(id, doc string, min int) *RuleInfo {
	ri := &RuleInfo{ID: id, Doc: doc, Min: min}
	r.Rules = append(r.Rules, ri)
	return ri
}

func (r *Result) add(o Ob) {
	r.Obs = append(r.Obs, o)
}

// Ok records a discharged obligation.
func (r *Result) Ok(rule, construct, pos, detail string) {
	r.add(Ob{Rule: rule, Construct: construct, Pos: pos, OK: true, Detail: detail, Nontrivial: true})
}

// Triv records an obligation discharged by a table entry / intrinsic argument.
func (r *Result) Triv(rule, construct, pos, detail string) {
	r.add(Ob{Rule: rule, Construct: construct, Pos: pos, OK: true, Detail: detail, Nontrivial: false})
}

// Bad records a violated (or undecidable) obligation.
func (r *Result) Bad(rule, construct, pos, detail string) {
	r.add(Ob{Rule: rule, Construct: construct, Pos: pos, OK: false, Detail: detail, Nontrivial: true})
}

// Known findings -------------------------------------------------------------

type KnownFinding struct {
	Property   string `json:"property"`
	Rule       string `json:"rule"`
	Construct  string `json:"construct"`
	WhatFails  string `json:"what_fails"`
	Reproducer string `json:"reproducer,omitempty"`
}

type FixedFinding struct {
	Property   string `json:"property"`
	Rule       string `json:"rule"`
	Construct  string `json:"construct"`
	Commit     string `json:"commit"`
	WhatFailed string `json:"what_failed"`
}

type FindingsFile struct {
	Comment string         `json:"comment"`
	Known   []KnownFinding `json:"known"`
	Fixed   []FixedFinding `json:"fixed"`
}

func LoadFindings(path string) (*FindingsFile, error) {
	b, err := os.ReadFile(path)
	if err != nil {
		if os.IsNotExist(err) {
			return &FindingsFile{}, nil
		}
		return nil, err
	}
	var f FindingsFile
	if err := json.Unmarshal(b, &f); err != nil {
		return nil, fmt.Errorf("%s: %w", path, err)
	}
	return &f, nil
}

func (f *FindingsFile) lookup(prop, rule, construct string) *KnownFinding {
	for i := range f.Known {
		k := &f.Known[i]
		if k.Property == prop && k.Rule == rule && k.Construct == construct {
			return k
		}
	}
	return nil
}

// Finish evaluates min counts, splits violations into known / new, writes the
// evidence file, prints the report lines and returns the process exit code.
func (r *Result) Finish(verifDir, tier string, seed int64, started time.Time, extra map[string]any) int {
	// minimum instance counts: a rule that matches too little must not pass vacuously
	count := map[string]int{}
	for _, o := range r.Obs {
		count[o.Rule]++
	}
	for _, ri := range r.Rules {
		ri.Seen = count[ri.ID]
		if ri.Seen < ri.Min {
			r.Bad(ri.ID, "mincount:"+ri.ID, "-", fmt.Sprintf("rule decided %d obligations, at least %d were confirmed on the reference tree: the mechanism the rule anchors on is missing or no longer recognisable (undecided counts as violated)", ri.Seen, ri.Min))
		}
	}
	// de-duplicate by (rule, construct): keep the worst verdict
	sort.SliceStable(r.Obs, func(i, j int) bool {
		if r.Obs[i].Rule != r.Obs[j].Rule {
			return r.Obs[i].Rule < r.Obs[j].Rule
		}
		return r.Obs[i].Construct < r.Obs[j].Construct
	})
	findings, ferr := LoadFindings(filepath.Join(verifDir, "known_findings.json"))
	if ferr != nil {
		fmt.Printf("ERROR cannot read known_findings.json: %v\n", ferr)
		return 2
	}
	var newV, knownV []Ob
	seenKey := map[string]bool{}
	discharged, nontrivial := 0, 0
	ntKeys := map[string]bool{}
	for _, o := range r.Obs {
		key := o.Rule + "|" + o.Construct
		if o.OK {
			discharged++
			if o.Nontrivial && !ntKeys[key] {
				ntKeys[key] = true
				nontrivial++
			}
			continue
		}
		if seenKey[key] {
			continue
		}
		seenKey[key] = true
		if k := findings.lookup(r.Property, o.Rule, o.Construct); k != nil {
			knownV = append(knownV, o)
		} else {
			newV = append(newV, o)
		}
	}
	if os.Getenv("VERIF_VERBOSE") != "" {
		for _, o := range r.Obs {
			v := "ok  "
			if !o.OK {
				v = "BAD "
			}
			fmt.Printf("  %s %s %s [%s] %s\n", v, o.Rule, o.Construct, o.Pos, o.Detail)
		}
	}
	for _, o := range knownV {
		k := findings.lookup(r.Property, o.Rule, o.Construct)
		fmt.Printf("KNOWN-FINDING: property=%s %s %s [%s] — %s\n", r.Property, o.Rule, o.Construct, o.Pos, k.WhatFails)
	}
	for _, o := range newV {
		fmt.Printf("%s: %s %s: %s\n", o.Pos, o.Rule, o.Construct, o.Detail)
	}
	evDir := filepath.Join(verifDir, "evidence")
	if d := os.Getenv("VERIF_EVIDENCE_DIR"); d != "" {
		evDir = d // self-tests on scratch copies must not overwrite the evidence of the real run
	}
	os.MkdirAll(evDir, 0o755)
	violPath := filepath.Join(evDir, r.Property+".violations.json")
	if len(newV) > 0 {
		b, _ := json.MarshalIndent(map[string]any{"property": r.Property, "violations": newV}, "", " ")
		os.WriteFile(violPath, b, 0o644)
	} else {
		os.Remove(violPath)
	}
	// samples: a spread of actual obligations (first of each rule, then violations)
	var samples []Ob
	perRule := map[string]int{}
	for _, o := range r.Obs {
		if perRule[o.Rule] < 4 {
			perRule[o.Rule]++
			samples = append(samples, o)
		}
	}
	rules := []map[string]any{}
	var ruleDocs []string
	for _, ri := range r.Rules {
		rules = append(rules, map[string]any{"id": ri.ID, "doc": ri.Doc, "min_instances": ri.Min, "instances": ri.Seen})
		ruleDocs = append(ruleDocs, ri.ID+": "+ri.Doc)
	}
	expl := r.Explanation
	if r.NotDecided != "" {
		expl += " NOT DECIDED by this check: " + r.NotDecided
	}
	cov := map[string]any{
		"explanation":         expl,
		"rule":                "every site of the kinds listed under rules is enumerated from the type-checked source / SSA of /repo's working tree; one obligation per (rule, construct); non-trivial = discharged by a guard, path, template or value-flow argument rather than by an intrinsic/table entry. " + strings.Join(ruleDocs, " | "),
		"rules":               rules,
		"obligations":         len(r.Obs),
		"discharged":          discharged,
		"evaluations":         len(r.Obs),
		"distinct_nontrivial": nontrivial,
		"samples":             samples,
		"analysed":            r.Analysed,
		"exhaustive":          true,
		"known_findings":      knownV,
		"new_violations":      newV,
		"notes":               r.Notes,
	}
	for k, v := range extra {
		cov[k] = v
	}
	ev := map[string]any{
		"property_id": r.Property,
		"tier":        tier,
		"seed":        seed,
		"level":       "other",
		"coverage":    cov,
		"assumptions": append([]string{"go/packages, go/types and go/ssa (golang.org/x/tools v0.29.0) represent the sources faithfully", "the analysed tree is /repo's working tree at the time of the run; no code of /repo and no emitted script is executed"}, r.Assumptions...),
		"wall_s":      time.Since(started).Seconds(),
		"violations":  len(newV),
	}
	b, _ := json.MarshalIndent(ev, "", " ")
	if err := os.WriteFile(filepath.Join(evDir, r.Property+".json"), b, 0o644); err != nil {
		fmt.Printf("ERROR cannot write evidence: %v\n", err)
		return 2
	}
	fmt.Printf("%s %s: %d obligations, %d discharged, %d known findings, %d new violations (%.1fs)\n", r.Property, tier, len(r.Obs), discharged, len(knownV), len(newV), time.Since(started).Seconds())
	if len(newV) > 0 {
		fmt.Printf("VIOLATION property=%s replay=%s\n", r.Property, violPath)
		return 1
	}
	return 0
}
