#!/bin/sh
# Maintenance helper: run every neutral refactoring (or the ones named) against all checks, in parallel.
# All must be silent.  usage: tools_neutrals.sh [name-substring ...]
cd /verif
./check C01 quick >/dev/null 2>&1   # make sure the binary is built once
ls seeds/neutral/*.diff | while read f; do
  if [ $# -gt 0 ]; then m=0; for s in "$@"; do case "$f" in *$s*) m=1;; esac; done; [ $m = 1 ] || continue; fi
  echo "$f"
done | xargs -P 8 -I{} sh -c 'out=$(./tools_tryseed.sh $PWD/{} 2>&1 | grep -v "^(done"); if [ -n "$out" ]; then echo "### {}"; echo "$out"; else echo "silent {}"; fi'
