#!/bin/sh
# Builds the analyser binary offline from the sources on disk (module cache only).
set -e
cd "$(dirname "$0")"
export GOFLAGS=-mod=mod GOPROXY=off GOSUMDB=off GOTOOLCHAIN=local
unset GOWORK
mkdir -p bin evidence
go build -o bin/tshcheck ./cmd/tshcheck
