#!/usr/bin/env python3
"""Maintenance helper: create scratch worktrees /tmp/wt<N>/<Cxx> of /repo and the prompt files for a
round of independent seeding agents (the agents get the property text and their worktree, nothing from /verif).
usage: tools_mkround11.py <N>  (round 11: as round 9, longer done-already list)"""
import json, subprocess, sys, os
N=sys.argv[1]
props={}
for l in open('/verif/properties.jsonl'):
    d=json.loads(l); props[d['id']]=d
base='''You are working in a scratch git worktree of the Go project monstermichl/TypeShell at {wt} . Work ONLY inside {wt} (never touch /repo, /verif or other directories under /tmp/wt{N}). TypeShell is a small Go-like language with a lexer (lexer/), a type-checking parser (parser/), a transpiler/driver (transpiler/) and two converters (converters/bash, converters/batch) that emit Bash or Windows Batch scripts; tsh.go is the command line tool; std/ holds a small standard library written in TypeShell; tests/ holds the test suite (do not edit it).

Environment (no network): before any go command run
  export GOFLAGS=-mod=mod GOPROXY=off GOSUMDB=off GOTOOLCHAIN=local
Build the tool: go build -o {wt}/_seed/tsh .   (usage: tsh -i file.tsh -o outdir -t bash   and/or  -t batch ; the output directory must exist; copy the std/ directory next to the tsh binary if your program imports the standard library)
Existing tests: go test -vet=off -count=1 ./...   (about 5 s, 165 tests; they must still pass UNCHANGED with each of your changes)
bash is available to run emitted Bash scripts (run demos with bash, not sh). cmd.exe is NOT available: for the Batch target demonstrate on the emitted text.

The semantic property this exercise is about (also in {wt}.property.txt):
----
{pid}: {title}

{statement}

Quantifier: {quant}

Why the existing tests cannot settle it: {why}
----

You produce FOUR changes to the product code (lexer/, parser/, transpiler/, converters/, tsh.go - not tests/, not std/): two that BREAK the property (a, b) and two that PRESERVE behaviour completely (n1, n2).

PART 1 - two breaking changes (a, b). Each on its own breaks the property: plausible maintenance bugs (a refactoring that looks behaviour-preserving but is not, a "simplification", a performance tweak such as caching / early exit / reuse of a buffer or object, an extracted helper used in one place too many, a merged condition, a loop rewritten in another style, state shared or reset at the wrong moment, a changed default, a boundary moved by one, reordered statements, a sibling branch copied with one detail not adapted, a generalisation that admits one case too many). Do NOT merely delete a check or flip an operator in the most obvious place; pick sites two or three steps away from the obvious one (helpers, constructors, accessors of tree nodes, bookkeeping, the second target, rarely taken branches, interactions between two functions that each look fine). The two must use different mechanisms and touch different functions; at least one of them outside parser/parser.go if the property allows it. For each: (a) the project still compiles, (b) the existing test suite still passes unchanged, (c) the property is violated for some input/program/sequence. Keep each small (a few lines) and without giveaways (no telling comments or names).

For X in {{a, b}} write under {wt}/_seed/X/ : patch.diff (git diff of the product code only; must apply to the worktree HEAD with `git apply`), demo.sh (+ .tsh / Go files) that FAILS (exit != 0, clear message) with change X applied and PASSES (exit 0) on the unchanged tree (it must rebuild tsh from the current worktree itself and use paths relative to its own directory), and notes.md (what, why it breaks the property, what it needs to manifest, commands and outputs in both states, test-suite result). Verify both states yourself: apply; demo must fail; git diff -- . ':(exclude)_seed' > _seed/X/patch.diff ; git checkout -- . ; demo must pass; git apply the patch; tests must pass; git checkout -- .

PART 2 - two behaviour-preserving refactorings (n1, n2) of code the property depends on: the kind of clean-up a maintainer does without changing any output (rename, extract or inline a helper, restructure a condition or a loop, replace a hand-written idiom by a library call or vice versa, reorder independent statements, change how a value is computed to an equivalent form, move state between a field and a local where that is equivalent, split a long function, merge two near-duplicate functions, replace a flag by an early return, a slice used as a stack by a struct field or the reverse). They must be REAL refactorings in functions that matter for the property (not comments or formatting), must not change the emitted scripts or the acceptance/rejection of any program, and should differ from each other in kind and in the layer they touch (one of them in a converter, the transpiler or the lexer if the property allows it). n1 is a LARGER restructuring of 40-90 changed lines: split a long function into two or three, introduce a small type or table that replaces parallel variables or a switch, change a data structure (slice used as stack <-> counter/struct field, list <-> map/set, string building <-> strings.Builder), move a responsibility from one function or layer to another one that already has the information, or replace a hand-written loop by library calls (slices, maps, strings) or the reverse. n2 is a smaller one of 10-40 changed lines of a different kind. (Round 7 and later: avoid these refactorings, they have been done already: extracting string scanning out of Tokenize; merging evaluateBreak and evaluateContinue; replacing the bash funcs stack by a counter; iterative getUsedFuncs with a work list; helper flags as a map; a forInfo struct for the batch labels. (Round 8: also done already: a position type/function for rows and columns in the lexer; a nameSequence type for the batch name counters; a generic stack type; Comparison/BinaryOperation operator tables; type switch or map dispatch in evaluateExpression; evaluateIf split into helpers; scope counters instead of the scope stack; funcSet for the call graph.) (Round 9: also done already: a lines/section type with an add method for the batch output buffers; one reader for all single-argument built-ins that is handed a type predicate and a constructor; evaluateEach / evaluateFirstValues helpers in the transpiler; a table of scanner functions in the lexer; package-level compiled regular expressions; a Pipeline helper shared by both converters; a builtInLimits type; splitting evaluateImports into resolveImport and linkImportedStatements; a map lookup by decreasing length for the punctuation tokens; checkDefinitionNameTokens / newDefinedVariables.) (Round 11: also done already: hand-written byte scanners instead of the regular expressions of the lexer; repeated negation parsed iteratively; switch cases collected in a slice / read by a helper; one shared importState / linkState object for the import bookkeeping; a table of operands in evaluateWrite; strings.Builder output buffers and Dump; one stack of open statements in the Batch converter; a condition type / assignHelper / value builders in the converters; one transpiler routine per kind of assignment; evaluateSubscript split; an argumentChecker type; tokenCursor / remaining() in the parser; option handler table in tsh.go; the pipeline converted recursively; a small type for the function-body callback; a labels type for Batch functions.) Prefer something else: closures vs methods, an interface or small type with methods, generics, table-driven dispatch, early returns vs nested ifs across a whole function, moving a computation between parser/transpiler/converter, changing the order in which independent facts are computed, replacing recursion by iteration or the reverse, fmt.Sprintf vs concatenation vs strings.Builder, switch vs map lookup.) For Y in {{n1, n2}} write under {wt}/_seed/Y/ : patch.diff, and equal.sh which builds tsh WITHOUT and WITH the patch and shows that for a corpus of at least 25 programs (write your own small .tsh programs that exercise the refactored code, including rejected programs, plus anything you like from the repository) the outputs for -t bash and -t batch, the exit status and the error text are byte-identical; exit 0 if identical, 1 otherwise. Also run the test suite with the patch (must pass) and say so in notes.md, together with an argument why the refactoring cannot change behaviour.

If while reading you notice behaviour of the UNCHANGED tree that already violates the property, list it at the end of your summary (one line each, with a minimal program); do not use it as one of your changes.
At the end leave tracked files unmodified (git checkout -- .); _seed/ stays as untracked directory.
Finish with a summary of at most 14 lines.
'''
os.makedirs(f'/tmp/wt{N}', exist_ok=True)
for pid,d in props.items():
    if pid=='C15': continue
    wt=f'/tmp/wt{N}/{pid}'
    if not os.path.isdir(wt):
        subprocess.run(['git','-C','/repo','worktree','add','--detach','-q',wt,'HEAD'],check=True)
    q=d['quantifier']['text']
    txt=base.format(wt=wt,N=N,pid=pid,title=d['title'],statement=d['statement'],quant=q,why=d['why_tests_cant'])
    open(f'/tmp/wt{N}/{pid}.prompt.txt','w').write(txt)
    open(f'/tmp/wt{N}/{pid}.property.txt','w').write(f"{pid}: {d['title']}\n\n{d['statement']}\n\nQuantifier: {q}\n\nWhy the existing tests cannot settle it: {d['why_tests_cant']}\n")
print('ok')
