#!/bin/sh
# Maintenance helper: re-run the named seeded changes / refactorings against all checks with the current
# analyser and replace (or add) their entries in seeded/MATRIX.txt.  usage: tools_matrixpatch.sh <name> ...
cd "$(dirname "$(readlink -f "$0")")"
tmp=$(mktemp -d /var/tmp/verif-mpatch.XXXXXX)
for name in "$@"; do
  if [ -f seeded/$name/patch.diff ]; then echo "$name $PWD/seeded/$name/patch.diff";
  elif [ -f seeds/neutral/$name.diff ]; then echo "$name $PWD/seeds/neutral/$name.diff";
  elif [ -f seeds/own/$name.diff ]; then echo "$name $PWD/seeds/own/$name.diff";
  else echo "unknown: $name" >&2; fi
done > $tmp/list
cat $tmp/list | xargs -P 14 -L 1 sh -c './tools_tryseed.sh "$1" > '$tmp'/"$0".out 2>&1'
python3 - "$tmp" <<'PY'
import sys,re,os
tmp=sys.argv[1]
entries={}; order=[]; cur=None
for ln in open('seeded/MATRIX.txt', errors='replace'):
    if not ln.startswith('    '):
        cur=ln.split(':',1)[0]; entries[cur]=[ln]; order.append(cur)
    elif cur: entries[cur].append(ln)
for l in open(os.path.join(tmp,'list')):
    name=l.split()[0]
    out=open(os.path.join(tmp,name+'.out'),errors='replace').read().splitlines()
    hits=' '.join(re.sub(r'== (C\d+) exit=(\d+)',r'\1(\2)',x) for x in out if x.startswith('== C'))
    block=[f"{name}: {hits+' ' if hits else 'MISSED'}\n"]
    for i,x in enumerate(out):
        if x.startswith('== C') and i+1 < len(out) and not out[i+1].startswith('=='):
            block.append('    '+out[i+1][:200]+'\n')
    if name not in entries: order.append(name)
    entries[name]=block
order.sort()
open('seeded/MATRIX.txt','w').write(''.join(''.join(entries[n]) for n in order))
print('patched', len(open(os.path.join(tmp,'list')).readlines()))
PY
rm -rf $tmp
