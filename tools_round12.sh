#!/bin/sh
# Maintenance helper: round 12 – three behaviour-preserving refactorings per property
# (n1..n3 -> seeds/neutral/<prop>-r12n1|2|3.diff), confirmed (tests + the agent's equal.sh) and run against all checks.
cd "$(dirname "$(readlink -f "$0")")"
export GOFLAGS=-mod=mod GOPROXY=off GOSUMDB=off GOTOOLCHAIN=local
for p in "$@"; do
  wt=/tmp/wt12/$p
  for n in n1 n2 n3; do
    [ -f $wt/_seed/$n/patch.diff ] || { echo "$p-$n: no patch"; continue; }
    ( cd $wt && git checkout -q -- . && git apply --check _seed/$n/patch.diff 2>/dev/null ) || { echo "$p-$n: patch does not apply"; continue; }
    ( cd $wt && git apply _seed/$n/patch.diff && go build ./... >/dev/null 2>&1 && go test -vet=off -count=1 ./... >/dev/null 2>&1 ); rc_tests=$?
    ( cd $wt && git checkout -q -- . )
    rc_equal=skip
    if [ -f $wt/_seed/$n/equal.sh ]; then ( cd $wt/_seed/$n && timeout 900 bash ./equal.sh >/dev/null 2>&1 ); rc_equal=$?; ( cd $wt && git checkout -q -- . ); fi
    echo "$p-$n: tests_with_patch_exit=$rc_tests equal.sh_exit=$rc_equal lines=$(grep -c '^[+-][^+-]' $wt/_seed/$n/patch.diff)"
    if [ $rc_tests = 0 ] && [ "$rc_equal" = 0 ]; then
      cp $wt/_seed/$n/patch.diff seeds/neutral/$p-r12$n.diff
      mkdir -p seeds/neutral/notes; cp $wt/_seed/$n/notes.md seeds/neutral/notes/$p-r12$n.md 2>/dev/null
      echo "--- neutral $p-$n: $(grep '^+++ b/' seeds/neutral/$p-r12$n.diff | sed 's/+++ b.//' | tr '\n' ' ')"
      timeout 900 ./tools_tryseed.sh $PWD/seeds/neutral/$p-r12$n.diff | cut -c1-330
    fi
  done
done
