#!/usr/bin/env python3
"""Maintenance helper (never run by a check): record every *new* violation of the last run of a property as a known finding.
Usage: tools_recordall.py <property> <rule-prefix> <reproducer text>. Only for violations that were triaged as genuine."""
import json, subprocess, sys
prop, rulepfx, repro = sys.argv[1], sys.argv[2], sys.argv[3]
v = json.load(open(f'/verif/evidence/{prop}.violations.json'))
for o in v['violations']:
    if not o['rule'].startswith(rulepfx):
        continue
    subprocess.check_call(['/verif/tools_addfinding.py', 'known', prop, o['rule'], o['construct'], o['detail'][:400], repro])
    print('recorded', o['construct'])
