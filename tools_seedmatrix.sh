#!/bin/sh
# Maintenance helper (never run by a registered check): run every check against every kept
# seeded change (scratch copies, /repo untouched) and write seeded/MATRIX.txt.
cd "$(dirname "$(readlink -f "$0")")"
./setup.sh >/dev/null 2>&1
out=seeded/MATRIX.txt
tmp=$(mktemp -d /var/tmp/verif-matrix.XXXXXX)
ls -d seeded/C*/ seeds/own/*.diff seeds/neutral/*.diff 2>/dev/null | while read s; do
  case "$s" in
    *.diff) patch="$PWD/$s"; name=$(basename "$s" .diff);;
    *) patch="$PWD/${s}patch.diff"; name=$(basename "$s");;
  esac
  echo "$name $patch"
done > $tmp/list
cat $tmp/list | xargs -P 14 -L 1 sh -c './tools_tryseed.sh "$1" > '$tmp'/"$0".out 2>&1'
: > $out
while read name patch; do
  hits=$(grep "^== C" $tmp/$name.out | sed -e 's/== \(C[0-9]*\) exit=\([0-9]*\)/\1(\2)/' | tr '\n' ' ')
  echo "$name: ${hits:-MISSED}" >> $out
  grep -A1 "^== C" $tmp/$name.out | grep -v "^==" | grep -v "^--" | cut -c1-200 | sed -e 's/^/    /' >> $out
done < $tmp/list
rm -rf $tmp
cat $out | grep -v "^    "
