#!/bin/sh
# Maintenance helper: confirm round-3 seeds (three per property: a,b,c -> -d,-e,-f) and run all checks against them.
cd /verif
for p in "$@"; do
  for pair in a:d b:e c:f; do
    src=${pair%:*}; dst=${pair#*:}
    [ -f /tmp/wt3/$p/_seed/$src/patch.diff ] || { echo "$p-$dst: no patch"; continue; }
    ./tools_confirmseed.sh $p /tmp/wt3/$p $p-$dst $src
    if [ -f seeded/$p-$dst/patch.diff ]; then
      echo "--- $p-$dst: $(grep '^+++ b/' seeded/$p-$dst/patch.diff | sed 's/+++ b.//' | tr '\n' ' ')"
      ./tools_tryseed.sh $PWD/seeded/$p-$dst/patch.diff | cut -c1-330
    fi
  done
done
