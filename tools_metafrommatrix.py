#!/usr/bin/env python3
"""Maintenance helper: copy detection results from seeded/MATRIX.txt into each seeded/<id>/meta.json
(detected_by = checks that exited 1; reports = first report line of the seed's own property)."""
import json, re, os
cur=None; hits={}; lines={}
for ln in open('/verif/seeded/MATRIX.txt', errors='replace'):
    if not ln.startswith('    '):
        name, rest = ln.split(':',1)
        cur=name.strip(); hits[cur]=re.findall(r'(C\d\d)\(1\)', rest); lines[cur]=[]
    else:
        lines[cur].append(ln.strip())
for name in sorted(hits):
    p=f'/verif/seeded/{name}/meta.json'
    if not os.path.exists(p): continue
    m=json.load(open(p))
    own=m.get('property', name[:3])
    m['detected_by']=hits[name]
    reps=[]
    for l in lines[name]:
        mm=re.match(r'(\S+): (R-(C\d\d)-\S+) (\S+):', l)
        if mm and mm.group(2).split('-')[1]==own or (mm and own in hits[name] and not reps and False):
            reps.append(f"{mm.group(2)} {mm.group(4)} at {mm.group(1)}")
    if not reps:
        for l in lines[name]:
            mm=re.match(r'(\S+): (R-C\d\d-\S+) (\S+):', l)
            if mm: reps.append(f"{mm.group(2)} {mm.group(3)} at {mm.group(1)}"); break
    m['reports']=reps[:3]
    json.dump(m, open(p,'w'), indent=1, ensure_ascii=False)
print("updated", len(hits))
