#!/usr/bin/env python3
"""Maintenance helper (never run by a check): regenerate MANIFEST.json from the table below and validate it."""
import json
props = [json.loads(l) for l in open('/verif/properties.jsonl')]
# id -> (technique, level text, level note, design ref)
claimed = {
 "C08": ("string/template analysis of the Bash converter's SSA (abstract interpretation in a template domain) + Bash lexical scanner over the extracted line templates; per-hole quoting-context obligations",
         "Necessary structural condition per (emitting site, hole): every hole that can carry user string data is double-quoted at its innermost lexical level, outside eval, not echo's first word, with data-independent quoting; literal conversion must escape. Decides the shape of the emitter for all programs; does not decide what bash prints.",
         "Trusts the hole-class table (driver side) and the lexical Bash scanner; go/ssa faithful; run-time behaviour of bash not modelled.", "§3 C08"),
 "C17": ("template extraction + Bash lexical scanner on WriteFile/ReadFile/Exists: per-hole quoting rule; partial evaluation of the append selector (test polarity against BoolToString(true)) and word order of the write line",
         "Necessary structural conditions of the line store on the Bash emitter: path/content holes quoted outside eval; append==true selects >>, else >; the selector feeds the write line; echo newline-terminated. File-system histories are not decided.",
         "Trusts the Bash scanner and template extractor; argument type guards are C06's; no file system is touched.", "§3 C17"),
 "C18": ("template extraction for AppCall in both converters: argument-hole quoting (data-dependent choices detected in the template domain), pipe separator and list order, capture line shape and $? adjacency on the emission sequence; SSA check of the driver's stage list construction",
         "Necessary structural conditions: each argument an unconditionally quoted word, stages joined by | in source order, one command substitution into a fresh helper, $? read in the directly following line, result triple order. What the programs receive at run time is not decided.",
         "Trusts the scanners/extractor; Batch capture helper only judged for argument/pipe clauses.", "§3 C18"),
 "C16": ("template extraction for both converters + Bash/Batch lexical scanners: lexical closure per line; simulation of the Converter bracket protocol units over per-method block-keyword / parenthesis effects; Batch label definition/reference families with stack contents resolved; helper flag ⇔ invocation implications over converter field effects",
         "Decides well-formedness for all programs at template + protocol level (holes assumed free of quote/paren characters): closed lines, balanced protocol units with matching closers, every referenced label family defined and no definition numbered by stack depth, helpers emitted iff an invocation can be emitted. bash -n is not run; that the driver follows the protocol is C04's rule.",
         "Trusts the scanners and the bracket-protocol table (Converter interface contract); data-dependent breakage is C08.", "§3 C16"),
 "C01": ("partial evaluation of the Bash converter's operator methods per (type, operator) cell (template domain, bound constants) against the parser's operator tables (also partially evaluated); allocator-discipline rule over counter/stack origins of emitted names; exit/print template rules",
         "Necessary structural conditions of the Bash scalar fragment decided for every cell/site: operator mapping table and branch constants, instance-name allocation for nested constructs, panic/print shape. What bash computes is not decided.",
         "Trusts admissible-spelling tables for POSIX test / bash arithmetic written in the checker; scanners; go/ssa.", "§3 C01"),
 "C02": ("template extraction: per-activation helper name forms inside functions (mangling consistency), writer/reader agreement of return and argument registers, read-after-call ordering on the emission sequence",
         "Necessary structural conditions on both emitters for call/return plumbing and helper naming inside functions. Parser-side variable identity rules are added under the same id when built.",
         "Trusts the template extractor; run-time isolation not decided.", "§3 C02"),
 "C05": ("partial evaluation of the Batch converter's operator cells, sibling agreement with the Bash converter's accept/reject table, Batch scanner for comparison operand quoting in all templates incl. helper bodies, allocator discipline for labels and loop flags",
         "cmd.exe cannot run here: only structural clauses are decided (operator table, numeric comparison operand form, label/flag allocation).",
         "Trusts the Batch lexical scanner and the admissible-operator table; cmd semantics (string vs numeric IF comparison) taken from documentation.", "§3 C05"),
 "C10": ("enumeration of compiler-owned names from the extracted templates of both converters (name positions found lexically: assignment targets, expansions, labels, command words) intersected with the user identifier language read from the lexer's regex syntax trees and keyword table; emission-scheme disjointness decided at template level",
         "Decides, per compiler-owned name pattern, whether a legal user identifier can spell it while user names are emitted unchanged into the same namespace. On the pinned tree every pattern collides (recorded findings); any new or changed pattern is a new violation.",
         "A parser-side reservation check would not be recognised (stated in the evidence); environment beyond PATH/IFS not covered.", "§3 C10"),
 "C11": ("custom lints over the lexer's syntax tree and type info: regexp/syntax trees of every probe (anchoring, word boundary, greediness before a terminator, can-match-newline, maximal match length), prefix order of the first-match punctuation table, producibility of token types the parser tests, SSA scan for byte→string conversions, per-arm row bookkeeping",
         "Necessary structural conditions of faithful tokenisation, decided for every probe / table entry / arm. Equality with a reference scanner over all inputs is not decided (needs execution).",
         "Trusts regexp/syntax as the semantics of the probes and the recognition of the scanning loop's arm chain by shape (first if/else-if chain of the outer loop).", "§3 C11"),
 "C12": ("AST/SSA rules: guard structure of the token append (SPACE/COMMENT dropped), CRLF normalisation before the loop, forward value flow of Token.Row/Column to error constructors only, inter-procedural 'next token decision' search after every required NEWLINE, overlap of probe first-character sets with the punctuation table vs. conditioning on the previous token",
         "Necessary structural conditions of layout independence per site. Acceptance/byte equality over all re-layouts is behaviour and not decided.",
         "The next-decision search is bounded (3 call levels); sites are keyed by function and ordinal.", "§3 C12"),
 "C19": ("SSA rules on package main: who-may-write inventory of file-mutating calls over all product packages, backward value-flow of the written data and path, dominance of the write by the Transpile error check, error-result discipline of every call in main, provenance of the converter handed to Transpile (constructor call vs package-level state), remainder check of the option pair loop",
         "Structural necessary conditions of the command's contract for all option lists and inputs. File-system behaviour itself is not decided.",
         "Trusts go/ssa and the list of file-mutating standard-library calls.", "§3 C19"),
 "C13": ("SSA rules over the library packages: dominance of every non-comma-ok type assertion by the matching StatementType() tag test (tag→type map derived from the methods) or closed producer types; enumeration of every index/slice expression with automatic discharge (range bound, dominating length guard, down-counting loop) and a reviewed table with reasons; cross-layer check parser placement ⊇ converter stack accessors; Tarjan SCCs of the static call graph classified (token-consuming recursion vs file-loading recursion needing a visited-set guard); Transpile result discipline; must-consume analysis of parser loops",
         "Structural necessary conditions of totality per assertion / index / cycle / loop site. Resource exhaustion, stdlib panics and termination of the lexer's scanning loops are not decided; the index rule is a reviewed obligation list.",
         "Reviewed tables (index sites, path-sensitive loops) are part of the trusted base and are listed with reasons in the checker source.", "§3 C13"),
 "C14": ("SSA rules: effect classification of every map iteration (keyed stores vs order-observable effects), deny-list scan for ambient-state calls, forward taint of path-valued ambient sources through values, struct fields and calls with tree-node / hash / map sinks, backward provenance of the namespace prefix, writer inventory of package-level variables, Transpile's converter/parser discipline",
         "Under soundness of the static view (no reflect/unsafe: checked) the rules cover all call histories, process instances and locations the property quantifies over.",
         "Trusts the taint propagation (field-sensitive at type.field granularity) and C19 for fresh converters at the only in-repo caller.", "§3 C14"),
 "C06": ("SSA data-flow over the parser: enumeration of every typed slot store (composite literals, constructor calls), backward origin resolution, forward type-derivation that stops at node construction, guard atoms (predicate kind + polarity, wrapper helpers) and cut-based reachability from the value's definition with consistent branch valuation; loop/list, post-construction (delegated type), producer-function and driver second-line guards; partial evaluation of the parser's operator tables against both converters' accept/reject cells",
         "Decides for every typed position that the required predicate is established on all paths to the node construction; decides table agreement and target independence. Acceptance of all well-typed programs is not decided.",
         "Trusts the slot requirement table (oracle: Go typing + README signatures) written in the checker; go/ssa.", "§3 C06"),
 "C07": ("SSA rules over the parser's context handling: origin of every mutated context value (clone / fresh / received), order and predicate of the non-global filter in the function-definition parser, cut-based reachability of node uses from context lookups without the found-edge, newness and intra-list duplicate tests at declaration sites, scope-stack query constants and error guards for break/continue/return/func, scope constants per block-entering construct, Public() guards of import stores",
         "Structural necessary conditions of lexical scoping per site. Completeness (every in-scope use accepted) is not decided.",
         "Roles (context type, mutators, lookups, clone, scope queries) are recognised by shape; go/ssa.", "§3 C07"),
 "C09": ("SSA rules: single construction site of call nodes dominated by the call-edge record, current-function key set/reset around bodies, predicate of the unused-function filter, redundancy rule for membership tests of an element in the list it is ranged from (Engler-style contradiction), first-character class of the computed namespace prefix, Public() guards",
         "Structural necessary conditions of linking and dead-function removal. Run-time behaviour of diamonds/repeated aliases is not decided.",
         "go/ssa; shapes of the call-graph map and the filter closure.", "§3 C09"),
 "C04": ("typestate-style protocol check of the driver: per handler the event language of its success paths (eval/stmt/block of child accessors, Converter calls) is enumerated on the SSA CFG with error exits cut, loops unrolled and nil/emptiness/phi facts tracked for feasibility, and matched against a regular specification per node kind; duplicate-slot rule over the parser's node literals; returned-template rule over both converters; dispatcher exhaustiveness",
         "Necessary structural conditions of evaluation order, multiplicity and eagerness for every node kind. What the effects print at run time is not decided.",
         "Trusts the per-node specification table (oracle: Go operand order, README caveat, Converter bracket contract).", "§3 C04"),
 "C03": ("writer/reader agreement of the substring arithmetic: the parser's inclusive-end rewrite read from the constructed nodes (SSA) composed with affine forms parsed from each back end's substring helper template; shape of the range desugaring (same index variable / iterable values in SSA); helper arity (positional reads vs call templates); array-counter ordering in the slice-literal templates",
         "Narrow: decides the clauses whose truth is in the code's shape (off-by-one agreement, range loop shape, helper argument positions, array naming). Aliasing, growth, copy and contents at run time are not decided.",
         "Trusts the affine mini-parser and the template extractor.", "§3 C03"),
}

# additions of the build round (rules added after testing against seeded changes, see DESIGN.md §8)
more = {
 "C01": "; precedence-climbing chain of the expression parser vs Go's levels; driver lowering protocol of if/for; drop rule (node assembled in a parser loop never replaced as a whole); chain rule (elif/else continue one compound command); sign rule (lexer's operand-ender table); test-command order operators; pop discipline of loop/if stacks; stderr rule (a converter-owned variable that a template sets to the empty text is never an unquoted operand of a numeric test); integer-literal rule shared with C11",
 "C02": "; frame rule (function-local prefix = counter advanced only by FuncStart), pop discipline of the function stack, braced computed positional parameters, driver protocol of calls/returns, variable identity rule on the parser side; re-entrancy rule (values of a nested construct collected in locals of the activation, not in the shared driver object)",
 "C03": "; helper scratch-variable clash, helper accumulator initialisation, numeric test operators in Bash helpers, driver protocol of slice/string nodes",
 "C04": "; source-order rule (slots the driver evaluates in a fixed order hold expressions parsed in that order)",
 "C05": "; block-exit rule (goto before every line closing a user block), chain rule, depth-derived instance names, pop discipline, length-monotone rule of the slice assignment helper",
 "C06": "; per-element loop/producer guards (every iteration passes the test, adopt edges), substitution rule (parsed value replaced by a synthesised node only for the nil literal); constant folding of the scalar type predicates over the finite set of value types (false for every slice type)",
 "C07": "; visibility predicate (first rune upper case), header-order rule (construct variables declared after the header expressions), path-based final-return rule",
 "C09": "; accumulate / add-if-absent / filter-flag rules on the import merge loops, prefix = digest of the whole content; closure rule (the set of functions to keep is computed by reading call edges by key only); the digest object is made anew for every file",
 "C10": "; helper-local names discharged when no user-named variable is dereferenced in scope; prefix digest rule; pop discipline of the function stack (top-level names never carry a function's prefix)",
 "C11": "; position bookkeeping computed from the consumed source text, column base reset only under a line-break test, one-character accessor total below the length; extent clause (line breaks are counted in the very text the position was advanced by)",
 "C12": "; end-of-input look-ahead rule (NEWLINE as terminator implies a further test before parsing on), operand-ender table of the sign probe",
 "C13": "; visited-set idioms for recursion over relations (value tested = value recursed on; entry guard with grown collection), lexer class tests fail on the empty string",
 "C16": "; driver bracket projection, every admitted statement kind emits a line (expression statements restricted, handler reaches an always-emitting converter method), called functions stay defined (edge/merge rules)",
 "C17": "; driver protocol of write/read/exists, helper accumulator initialisation in both back ends, second-level quoting class inside eval",
 "C18": "; driver protocol of command calls, capture line is a bare assignment in every variant (no command word masking $?)",
 "C19": "; no package-level state written after initialisation in any library package",
 "C08": "; driver protocol of the string-handling nodes (the driver never computes on the text of a string itself)",
}
na_reason = {
 "C15": "value-level agreement of a TypeShell library executed by a shell with Go's strings package over all arguments; no clause of it is visible in the shape of the Go sources or of std/strings.tsh; static analysis (this task's technique family) cannot address it",
}
checks = []
for p in props:
    pid = p['id']
    if pid in claimed:
        tech, text, note, ref = claimed[pid]
        tech += more.get(pid, "")
        ref += " and §8 (as built)"
        checks.append({"property_id": pid, "quick_cmd": f"./check {pid} quick", "thorough_cmd": f"./check {pid} thorough",
                       "evidence_file": f"evidence/{pid}.json", "replay_cmd_template": f"./check {pid} replay {{path}}",
                       "engine": "tshcheck", "level_claimed": {"category": "other", "text": text, "design_ref": ref},
                       "level_note": note, "technique": tech})
na = []
for p in props:
    if p['id'] not in claimed:
        na.append({"property_id": p['id'], "reason": na_reason.get(p['id'], "check not built yet in this round (plan in DESIGN.md §3); not claimed until its analyser exists")})
m = {"version": 1, "setup_cmd": "cd /verif && ./setup.sh",
     "hooks": {"guard": "verif", "enable": "none needed: the analysers read /repo's sources; there are no hook commits", "baseline_off_cmd": "cd /repo && go test -vet=off -count=1 ./...", "source_commits": [], "add_only": True},
     "engines": [{"name": "tshcheck", "path": "cmd/tshcheck", "serves_properties": sorted(claimed), "kind_free_text": "custom static analysers over go/packages + go/types + go/ssa (golang.org/x/tools v0.29.0): template extraction, shell-lexical scanners, SSA data-flow rules"}],
     "checks": checks,
     "notes": "All checks are static: they parse, type-check and SSA-build /repo's working tree on every run and execute nothing from it. known_findings.json lists genuine defects of the pinned tree that are recorded rather than repaired.",
     "not_applicable": na}
json.dump(m, open('/verif/MANIFEST.json', 'w'), indent=1)
import jsonschema
jsonschema.validate(m, json.load(open('/root/.vp/MANIFEST.schema.json')))
for c in checks:
    try:
        ev = json.load(open('/verif/' + c['evidence_file']))
        jsonschema.validate(ev, json.load(open('/root/.vp/EVIDENCE.schema.json')))
    except FileNotFoundError:
        print("no evidence yet for", c['property_id'])
print("manifest ok:", len(checks), "checks,", len(na), "not applicable")
