#!/bin/sh
# Maintenance helper: confirm round-2 seeds of the given properties and run all checks against them.
cd /verif
for p in "$@"; do
  ./tools_confirmseed.sh $p /tmp/wt2/$p $p-b a
  ./tools_confirmseed.sh $p /tmp/wt2/$p $p-c b
  for s in b c; do
    if [ -f seeded/$p-$s/patch.diff ]; then
      echo "--- $p-$s: $(grep '^+++ b/' seeded/$p-$s/patch.diff | sed 's/+++ b.//' | tr '\n' ' ')"
      ./tools_tryseed.sh $PWD/seeded/$p-$s/patch.diff | cut -c1-330
    fi
  done
done
