#!/usr/bin/env python3
"""Maintenance helper: create scratch worktrees /tmp/wt<N>/<Cxx> of /repo and the prompt files for a
round of independent seeding agents (the agents get the property text and their worktree, nothing from /verif).
usage: tools_mkround12.py <N>  (round 11: as round 9, longer done-already list)"""
import json, subprocess, sys, os
N=sys.argv[1]
props={}
for l in open('/verif/properties.jsonl'):
    d=json.loads(l); props[d['id']]=d
base='''You are working in a scratch git worktree of the Go project monstermichl/TypeShell at {wt} . Work ONLY inside {wt} (never touch /repo, /verif or other directories under /tmp/wt{N}). TypeShell is a small Go-like language with a lexer (lexer/), a type-checking parser (parser/), a transpiler/driver (transpiler/) and two converters (converters/bash, converters/batch) that emit Bash or Windows Batch scripts; tsh.go is the command line tool; std/ holds a small standard library written in TypeShell; tests/ holds the test suite (do not edit it).

Environment (no network): before any go command run
  export GOFLAGS=-mod=mod GOPROXY=off GOSUMDB=off GOTOOLCHAIN=local
Build the tool: go build -o {wt}/_seed/tsh .   (usage: tsh -i file.tsh -o outdir -t bash   and/or  -t batch ; the output directory must exist; copy the std/ directory next to the tsh binary if your program imports the standard library)
Existing tests: go test -vet=off -count=1 ./...   (about 5 s, 165 tests; they must still pass UNCHANGED with each of your changes)
bash is available to run emitted Bash scripts (run demos with bash, not sh). cmd.exe is NOT available: for the Batch target demonstrate on the emitted text.

The semantic property this exercise is about (also in {wt}.property.txt):
----
{pid}: {title}

{statement}

Quantifier: {quant}

Why the existing tests cannot settle it: {why}
----

You produce THREE behaviour-preserving refactorings (n1, n2, n3) of product code (lexer/, parser/, transpiler/, converters/, tsh.go - not tests/, not std/) that the property depends on: the kind of clean-up a maintainer does without changing any output. They must be REAL refactorings in functions that matter for the property (not comments or formatting), must not change the emitted scripts or the acceptance/rejection (or error text) of any program, and must differ from each other in kind and in the layer they touch (at least one of them in a converter, the transpiler or the lexer if the property allows it). Sizes: n1 30-60 changed lines, n2 15-35 changed lines, n3 8-20 changed lines. Kinds to choose from (pick three different ones): extract or inline a helper; restructure a condition or a loop; early returns vs nested ifs; replace a hand-written idiom by a library call (slices, maps, strings, strconv) or the reverse; fmt.Sprintf vs concatenation vs strings.Builder; switch vs if-chain vs map lookup; a small type with methods replacing parallel variables; move state between a field and a local where that is equivalent; closures vs methods; change the order in which independent facts are computed; rename a group of related identifiers; replace a flag by an early return; merge two near-duplicate functions or split a long one; pass a value instead of recomputing it (or the reverse); generics for two near-identical helpers. Avoid what has been done many times already: hand-written lexers instead of regular expressions, table of scanner functions, strings.Builder output buffers, evaluateBlockContent with early returns, generic symbol-table helpers, step lists in evaluateFor, an operand table in evaluateWrite, the import bookkeeping in a shared object, repeated negation parsed iteratively.

For Y in {{n1, n2, n3}} write under {wt}/_seed/Y/ : patch.diff (git diff of the product code only; must apply to the worktree HEAD with `git apply`), notes.md (what, and an argument why the refactoring cannot change behaviour), and equal.sh which builds tsh WITHOUT and WITH the patch (in scratch copies, with -trimpath) and shows that for a corpus of at least 25 programs (write your own small .tsh programs that exercise the refactored code, including rejected programs, plus anything you like from the repository) the outputs for -t bash and -t batch, the exit status and the error text (up to a Go stack trace) are byte-identical; exit 0 if identical, 1 otherwise. Also run the test suite with each patch (must pass) and say so in notes.md. Verify: git apply the patch; tests pass; git diff -- . ':(exclude)_seed' > _seed/Y/patch.diff ; git checkout -- . ; equal.sh exits 0.

If while reading you notice behaviour of the UNCHANGED tree that already violates the property, list it at the end of your summary (one line each, with a minimal program); do not use it as one of your changes.
At the end leave tracked files unmodified (git checkout -- .); _seed/ stays as untracked directory.
Finish with a summary of at most 10 lines.
'''
os.makedirs(f'/tmp/wt{N}', exist_ok=True)
for pid,d in props.items():
    if pid=='C15': continue
    wt=f'/tmp/wt{N}/{pid}'
    if not os.path.isdir(wt):
        subprocess.run(['git','-C','/repo','worktree','add','--detach','-q',wt,'HEAD'],check=True)
    q=d['quantifier']['text']
    txt=base.format(wt=wt,N=N,pid=pid,title=d['title'],statement=d['statement'],quant=q,why=d['why_tests_cant'])
    open(f'/tmp/wt{N}/{pid}.prompt.txt','w').write(txt)
    open(f'/tmp/wt{N}/{pid}.property.txt','w').write(f"{pid}: {d['title']}\n\n{d['statement']}\n\nQuantifier: {q}\n\nWhy the existing tests cannot settle it: {d['why_tests_cant']}\n")
print('ok')
