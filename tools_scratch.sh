#!/bin/sh
# Maintenance helper: leave a scratch copy of /repo with a patch applied in /var/tmp/scr/repo (for debugging a rule).
# usage: tools_scratch.sh <patch.diff> | tools_scratch.sh clean
rm -rf /var/tmp/scr
[ "$1" = clean ] && exit 0
mkdir -p /var/tmp/scr
rsync -a --exclude .git /repo/ /var/tmp/scr/repo/
cd /var/tmp/scr/repo && git init -q . && git apply --whitespace=nowarn "$1" && rm -rf .git && echo "scratch at /var/tmp/scr/repo"
