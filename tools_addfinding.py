#!/usr/bin/env python3
"""Maintenance helper (never run by a check): add a known finding / fixed record to known_findings.json."""
import json, sys
p = '/verif/known_findings.json'
try:
    d = json.load(open(p))
except FileNotFoundError:
    d = {"comment": "Genuine defects of the pinned tree that are recorded rather than repaired (known) and repaired ones (fixed). Keyed by property+rule+construct, never by line. Read-only at check time.", "known": [], "fixed": []}
kind = sys.argv[1]
if kind == 'known':
    prop, rule, construct, what, repro = sys.argv[2:7]
    d['known'] = [k for k in d['known'] if not (k['property'] == prop and k['rule'] == rule and k['construct'] == construct)]
    d['known'].append({"property": prop, "rule": rule, "construct": construct, "what_fails": what, "reproducer": repro})
elif kind == 'fixed':
    prop, rule, construct, commit, what = sys.argv[2:7]
    d['fixed'].append({"property": prop, "rule": rule, "construct": construct, "commit": commit, "what_failed": what})
    d['known'] = [k for k in d['known'] if not (k['property'] == prop and k['rule'] == rule and k['construct'] == construct)]
d['known'].sort(key=lambda k: (k['property'], k['rule'], k['construct']))
json.dump(d, open(p, 'w'), indent=1, ensure_ascii=False)
