#!/bin/sh
# Maintenance helper: confirm a sub-agent's seeded change in its scratch worktree and copy it to /verif/seeded/<name>/.
# usage: tools_confirmseed.sh <property> <worktree> <name> [subdir of _seed]
prop="$1"; wt="$2"; name="$3"; sub="${4:-.}"
export GOFLAGS=-mod=mod GOPROXY=off GOSUMDB=off GOTOOLCHAIN=local
cd "$wt" || exit 2
git checkout -q -- . 2>/dev/null
log=$(mktemp)
r_apply=fail; r_demo_with=?; r_tests=?; r_demo_without=?
if git apply --check _seed/$sub/patch.diff 2>>$log; then
  git apply _seed/$sub/patch.diff; r_apply=ok
  if go build ./... >>$log 2>&1; then
    (cd _seed/$sub && timeout 300 bash ./demo.sh) >>$log 2>&1; r_demo_with=$?
    if go test -vet=off -count=1 ./... >>$log 2>&1; then r_tests=pass; else r_tests=FAIL; fi
  else r_tests=BUILDFAIL; fi
  git checkout -q -- .
  (cd _seed/$sub && timeout 300 bash ./demo.sh) >>$log 2>&1; r_demo_without=$?
fi
echo "$name: apply=$r_apply demo_with_change_exit=$r_demo_with tests_with_change=$r_tests demo_without_change_exit=$r_demo_without"
if [ "$r_apply" = ok ] && [ "$r_demo_with" != 0 ] && [ "$r_tests" = pass ] && [ "$r_demo_without" = 0 ]; then
  d=/verif/seeded/$name; rm -rf $d; mkdir -p $d/demo
  cp _seed/$sub/patch.diff $d/patch.diff
  # demonstration files (no binaries / build output)
  (cd _seed/$sub && find . -type f ! -name tsh ! -name '*.log' ! -name patch.diff -size -200k ! -path './out/*' ! -path './bin/tsh' | while read f; do mkdir -p "$d/demo/$(dirname $f)"; cp "$f" "$d/demo/$f"; done)
  cat > $d/meta.json <<META
{"property": "$prop", "name": "$name", "origin": "independent sub-agent given only the property text and a scratch worktree",
 "confirmed": {"patch_applies": true, "builds": true, "demo_exit_with_change": $r_demo_with, "existing_tests_with_change": "pass (165)", "demo_exit_without_change": 0},
 "ran": "git apply patch.diff; go build ./...; bash demo/demo.sh (fails); go test -vet=off -count=1 ./... (passes); git checkout -- .; bash demo/demo.sh (passes)",
 "needs_to_manifest": "see demo/notes.md"}
META
  echo "  kept as $d"
fi
rm -f $log
