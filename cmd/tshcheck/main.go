// tshcheck decides the TypeShell properties by static analysis of /repo's
// current working tree. Usage: tshcheck <Cxx> <quick|thorough|replay> [path]
package main

import (
	"fmt"
	"os"
	"os/exec"
	"path/filepath"
	"runtime/debug"
	"sort"
	"strconv"
	"strings"
	"time"

	"verif/an"
)

func main() {
	if len(os.Args) < 3 {
		fmt.Println("usage: tshcheck <property> <quick|thorough|replay|dump> [arg]")
		os.Exit(2)
	}
	prop, tier := os.Args[1], os.Args[2]
	repo := os.Getenv("VERIF_REPO")
	if repo == "" {
		repo = "/repo"
	}
	verifDir := os.Getenv("VERIF_DIR")
	if verifDir == "" {
		exe, _ := os.Executable()
		verifDir = filepath.Dir(filepath.Dir(exe))
	}
	seed, _ := strconv.ParseInt(os.Getenv("VERIF_SEED"), 10, 64)
	started := time.Now()
	code := 2
	// watchdog: an analysis that does not end is reported as "tree not analysable" (exit 2), never as a verdict
	limit := 15 * time.Minute
	if d, err := time.ParseDuration(os.Getenv("VERIF_TIME_LIMIT")); err == nil && d > 0 {
		limit = d
	}
	time.AfterFunc(limit, func() {
		fmt.Printf("ERROR analysis of %s did not end within %s\n", prop, limit)
		os.Exit(2)
	})
	func() {
		defer func() {
			if r := recover(); r != nil {
				fmt.Printf("ERROR analyser panic: %v\n%s\n", r, debug.Stack())
				code = 2
			}
		}()
		w, err := an.Load(repo, "")
		if err != nil {
			fmt.Printf("ERROR %v\n", err)
			code = 2
			return
		}
		if tier == "dump" {
			an.Dump(w, prop, os.Args[3:])
			code = 0
			return
		}
		run, ok := an.Registry[prop]
		if !ok {
			fmt.Printf("ERROR no check registered for %s\n", prop)
			code = 2
			return
		}
		res := run(w)
		evTier := tier
		extra := map[string]any{}
		if tier == "replay" {
			evTier = "quick"
		}
		if tier == "thorough" {
			an.Thorough(w, prop, res, extra)
			if os.Getenv("VERIF_SELFTEST") != "off" && os.Getenv("VERIF_REPO") == "" {
				extra["self_test"] = selfTest(prop, repo, verifDir)
			}
		}
		code = res.Finish(verifDir, evTier, seed, started, extra)
	}()
	os.Exit(code)
}

// selfTest (thorough tier, informational): every property-breaking change kept under
// seeded/ and seeds/own/ for this property is applied to a scratch copy of the current
// tree (outside /repo and /verif, removed at once) and the quick analysis is run on the
// copy in a child process. The outcome is recorded in the evidence and printed; it never
// changes the verdict on /repo: a seed that no longer applies, or that a legitimate
// change of /repo has made harmless, is not a violation of the property.
func selfTest(prop, repo, verifDir string) map[string]any {
	var patches []string
	ms, _ := filepath.Glob(filepath.Join(verifDir, "seeded", prop+"-*", "patch.diff"))
	patches = append(patches, ms...)
	ms, _ = filepath.Glob(filepath.Join(verifDir, "seeds", "own", "*."+prop+".diff"))
	patches = append(patches, ms...)
	sort.Strings(patches)
	exe, err := os.Executable()
	if err != nil {
		return map[string]any{"error": err.Error()}
	}
	var reported, silent, skipped []string
	for _, p := range patches {
		name := filepath.Base(filepath.Dir(p))
		if strings.HasSuffix(p, ".diff") && filepath.Base(p) != "patch.diff" {
			name = strings.TrimSuffix(filepath.Base(p), ".diff")
		}
		tmp, err := os.MkdirTemp("", "tshcheck-self-")
		if err != nil {
			skipped = append(skipped, name+" (no scratch directory)")
			continue
		}
		func() {
			defer os.RemoveAll(tmp)
			dst := filepath.Join(tmp, "repo")
			if out, err := exec.Command("cp", "-a", repo, dst).CombinedOutput(); err != nil {
				skipped = append(skipped, name+" (copy failed: "+strings.TrimSpace(string(out))+")")
				return
			}
			os.RemoveAll(filepath.Join(dst, ".git"))
			ap := exec.Command("git", "apply", "--whitespace=nowarn", p)
			ap.Dir = dst
			if _, err := ap.CombinedOutput(); err != nil {
				skipped = append(skipped, name+" (patch does not apply to the current tree)")
				return
			}
			c := exec.Command(exe, prop, "quick")
			c.Env = append(os.Environ(), "VERIF_REPO="+dst, "VERIF_EVIDENCE_DIR="+filepath.Join(tmp, "ev"), "VERIF_DIR="+verifDir)
			_, err := c.CombinedOutput()
			code := 0
			if ee, ok := err.(*exec.ExitError); ok {
				code = ee.ExitCode()
			} else if err != nil {
				code = 2
			}
			switch code {
			case 1:
				reported = append(reported, name)
			case 0:
				silent = append(silent, name)
			default:
				skipped = append(skipped, name+" (variant does not load / type-check)")
			}
		}()
	}
	fmt.Printf("SELF-TEST property=%s seeded variants on scratch copies of the current tree: %d reported, %d silent %v, %d skipped %v\n", prop, len(reported), len(silent), silent, len(skipped), skipped)
	return map[string]any{"variants": len(patches), "reported": reported, "silent": silent, "skipped": skipped,
		"note": "informational: the seeded changes are applied to scratch copies only; the verdict of this check concerns /repo's working tree alone"}
}
