// tshcheck decides the TypeShell properties by static analysis of /repo's
// current working tree. Usage: tshcheck <Cxx> <quick|thorough|replay> [path]
package main

import (
	"fmt"
	"os"
	"path/filepath"
	"runtime/debug"
	"strconv"
	"time"

	"verif/an"
)

func main() {
	if len(os.Args) < 3 {
		fmt.Println("usage: tshcheck <property> <quick|thorough|replay|dump> [arg]")
		os.Exit(2)
	}
	prop, tier := os.Args[1], os.Args[2]
	repo := os.Getenv("VERIF_REPO")
	if repo == "" {
		repo = "/repo"
	}
	verifDir := os.Getenv("VERIF_DIR")
	if verifDir == "" {
		exe, _ := os.Executable()
		verifDir = filepath.Dir(filepath.Dir(exe))
	}
	seed, _ := strconv.ParseInt(os.Getenv("VERIF_SEED"), 10, 64)
	started := time.Now()
	code := 2
	func() {
		defer func() {
			if r := recover(); r != nil {
				fmt.Printf("ERROR analyser panic: %v\n%s\n", r, debug.Stack())
				code = 2
			}
		}()
		w, err := an.Load(repo, "")
		if err != nil {
			fmt.Printf("ERROR %v\n", err)
			code = 2
			return
		}
		if tier == "dump" {
			an.Dump(w, prop, os.Args[3:])
			code = 0
			return
		}
		run, ok := an.Registry[prop]
		if !ok {
			fmt.Printf("ERROR no check registered for %s\n", prop)
			code = 2
			return
		}
		res := run(w)
		evTier := tier
		extra := map[string]any{}
		if tier == "replay" {
			evTier = "quick"
		}
		if tier == "thorough" {
			an.Thorough(w, prop, res, extra)
		}
		code = res.Finish(verifDir, evTier, seed, started, extra)
	}()
	os.Exit(code)
}
