#!/usr/bin/env python3
"""Maintenance helper (never run by a registered check): regenerate DESIGN_TABLES.md from
the evidence files of the last run, known_findings.json and seeded/*/meta.json."""
import json, glob, os, re
out = []
out.append("# Tables generated from the current state of /verif (tools_designtables.py)\n")
out.append("Regenerate after running all checks: `for p in $(ls evidence | sed -n 's/^\\(C[0-9]*\\).json/\\1/p'); do ./check $p quick; done; python3 tools_designtables.py`.\n")
out.append("## T1. Rules as built, with the number of obligations on the current tree\n")
out.append("| property | rule | what is decided | obligations | floor |\n|---|---|---|---|---|")
for f in sorted(glob.glob('evidence/C*.json')):
    if 'violations' in f:
        continue
    d = json.load(open(f))
    for r in d['coverage']['rules']:
        out.append(f"| {d['property_id']} | {r['id']} | {r['doc']} | {r['instances']} | {r['min_instances']} |")
kf = json.load(open('known_findings.json'))
out.append("\n## T2. Genuine defects repaired in /repo (one `fix:` commit each; recorded as `fixed` in known_findings.json)\n")
out.append("| property | rule / construct that reported it | commit | what failed |\n|---|---|---|---|")
for k in kf['fixed']:
    out.append(f"| {k['property']} | {k['rule']} `{k['construct']}` | {k.get('commit','')} | {k['what_failed']} |")
out.append("\n## T3. Genuine defects recorded, not repaired (`known` in known_findings.json; printed as KNOWN-FINDING)\n")
groups = {}
for k in kf['known']:
    groups.setdefault((k['property'], k['rule']), []).append(k)
for (p, r), ks in sorted(groups.items()):
    out.append(f"### {p} {r} — {len(ks)} construct(s)\n")
    if len(ks) > 20:
        out.append(f"{ks[0]['what_fails']}\n")
        out.append("Constructs: " + ", ".join(f"`{k['construct']}`" for k in ks) + "\n")
        out.append(f"Reproducer (first): {ks[0].get('reproducer','')}\n")
    else:
        out.append("| construct | what fails | reproducer / why not repaired |\n|---|---|---|")
        for k in ks:
            out.append(f"| `{k['construct']}` | {k['what_fails']} | {k.get('reproducer','')} |")
        out.append("")
out.append("\n## T4. Property-breaking changes kept under seeded/ and seeds/own/, and the checks that report them\n")
out.append("Independent = produced by a sub-agent that saw only the property text and a scratch worktree; confirmed by hand (applies, builds, 165 tests pass, demonstration fails with / passes without).\n")
out.append("| change | property | origin | what it changes | reported by | rule and construct |\n|---|---|---|---|---|---|")
def first_changed(p):
    fs = re.findall(r'^\+\+\+ b/(\S+)', open(p, errors='replace').read(), re.M)
    return ", ".join(fs)
matrix = {}
cur = None
if os.path.exists('seeded/MATRIX.txt'):
    for l in open('seeded/MATRIX.txt', errors='replace'):
        if not l.startswith('    '):
            n, rest = l.split(':', 1)
            matrix[n] = {'checks': re.findall(r'(C\d+)\(1\)', rest), 'rep': []}
            cur = n
        else:
            m = re.match(r'\s*(\S+): (R-\S+) (\S+?):', l)
            if m:
                matrix[cur]['rep'].append(f"{m.group(2)} `{m.group(3)}`")
for d in sorted(glob.glob('seeded/C*/')):
    n = os.path.basename(d.rstrip('/'))
    meta = json.load(open(d + 'meta.json'))
    m = matrix.get(n, {'checks': [], 'rep': []})
    out.append(f"| seeded/{n} | {meta['property']} | independent | {meta.get('summary', first_changed(d+'patch.diff'))} | {', '.join(m['checks']) or 'MISSED'} | {'; '.join(dict.fromkeys(m['rep']))} |")
for p in sorted(glob.glob('seeds/own/*.diff')):
    n = os.path.basename(p)[:-5]
    m = matrix.get(n, {'checks': [], 'rep': []})
    prop = n.split('.')[-1]
    out.append(f"| seeds/own/{n} | {prop} | own | {first_changed(p)} | {', '.join(m['checks']) or 'not reported (see DESIGN §8.6)'} | {'; '.join(dict.fromkeys(m['rep']))} |")
open('DESIGN_TABLES.md', 'w').write("\n".join(out) + "\n")
print("wrote DESIGN_TABLES.md", len(out), "lines")
