#!/bin/sh
# Maintenance helper: run checks against a scratch copy of /repo with a patch applied.
# usage: tools_tryseed.sh <patch.diff> [Cxx ...]   (default: all registered checks)
# The copy lives outside /repo and /verif and is removed afterwards; /repo is not touched.
set -u
patch="$1"; shift
props="${*:-C01 C02 C03 C04 C05 C06 C07 C08 C09 C10 C11 C12 C13 C14 C16 C17 C18 C19}"
scratch=$(mktemp -d /var/tmp/verif-seed.XXXXXX)
trap 'rm -rf "$scratch"' EXIT
git -C /repo worktree list >/dev/null 2>&1
rsync -a --exclude .git /repo/ "$scratch/repo/"
if ! (cd "$scratch/repo" && git init -q . && git apply --whitespace=nowarn "$patch" 2>"$scratch/apply.err"); then
  echo "PATCH DOES NOT APPLY: $(head -3 $scratch/apply.err)"; exit 3
fi
rm -rf "$scratch/repo/.git"
cd "$(dirname "$(readlink -f "$0")")"
for p in $props; do
  out=$(VERIF_TIME_LIMIT=4m VERIF_REPO="$scratch/repo" VERIF_EVIDENCE_DIR="$scratch/ev" ./check $p quick 2>&1)
  rc=$?
  if [ $rc -ne 0 ]; then
    echo "== $p exit=$rc"
    echo "$out" | grep -v "^KNOWN-FINDING" | grep -v "^VIOLATION" | sed -e "s#$scratch/repo/##g" | head -6 | cut -c1-260
  fi
done
echo "(done; checks not listed above exited 0)"
